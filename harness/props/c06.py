"""C06 — binary GA family: operators do what they are named; wiring through the pools."""
from __future__ import annotations

import itertools

import numpy as np

import common as C
import live as L
import mirror as MR
import translate_pools as TP

ESCALATE = True     # cheap thorough tier: run it whenever an anchor file differs from the pinned fingerprint
RULE = ("crossovers / flip / binomial: ALL outcomes of the random draws enumerated in script mode on labelled "
        "parents (gene = 10*parent+locus, so the donor of every locus is observable) for small lengths; seeded "
        "compiled runs vs log-mode mirror vs model; harvested: every _get_new_individ_g call of live GA / SelfCGA / "
        "PDPGA / SHAGA runs replayed through the model built from the *generated* pools (wiring), every population "
        "of every generation checked for shape and {0,1}. distinct = (family, inputs, draws).")
ASSUMPTIONS = ["primitives return values in their documented range", "fitness / rank finite"]
TRUSTED = ["models: coq/theories/BinaryOps.v, Pools.v, RandomPrims.v; checkers C06Check.v; translator harness/translate_pools.py", "code translator harness/translate_code.py (operator bodies -> gen/GenCode.v) over the semantics coq/theories/Py.v; models PROVED equal to the generated definitions (theories/CodeEqC06.v)"]
THEORIES = ["Base", "RandomPrims", "RandomPrimsProofs", "RandomPrimsProofs2", "BinaryOps", "BinaryOpsProofs",
            "Pools", "C11Check", "C06Check", "PoolsClosed", "GenPools", "Py", "PyLemmas", "GenCode", "CodeEqC11", "CodeEqC06", "DEOps", "DEOpsProofs", "CodeEqC07", "CodeEqNewIndivid"]
IMPORTS = "From TF Require Import Base RandomPrims BinaryOps Pools C11Check C06Check.\nFrom TFG Require Import GenPools.\nFrom Coq Require Import String.\nOpen Scope string_scope."
EPS = 2.0 ** -53
CX = "thefittest.utils.crossovers."
CODES = {"empty_crossover": 0, "one_point_crossover": 1, "two_point_crossover": 2, "uniform_crossover": 3,
         "uniform_proportional_crossover": 4, "uniform_rank_crossover": 5, "uniform_tournament_crossover": 6}


GUARD = {}     # persistent copies of the parent arrays handed to the operators: they must never change


def gen(ctx):
    TP.emit()
    import translate_code as TC
    TC.ensure(TC.C06_FUNCS + TC.C06_METHODS + TC.C07_METHODS + TC.C07_FUNCS)


def rows(ps):
    return C.clist([C.clist([int(v) for v in r], C.cz) for r in ps])


def qs(xs):
    return C.clist([float(x) for x in xs], C.cq)


def labelled(k, n):
    return np.array([[10 * p + i for i in range(n)] for p in range(k)], dtype=np.int8)


def donors(child, n):
    return [int(v) // 10 for v in child], all(int(v) % 10 == i for i, v in enumerate(child)) and len(child) == n


def call_plain(name, script, *args):
    """uniform_tournament_crossover / empty_crossover are plain python: run them with the library patched"""
    import thefittest.utils.crossovers as cr
    with MR.patched_library():
        MR.TAPE.start_script(script)
        r = getattr(cr, name)(*args)
    return r, list(MR.TAPE.log), MR.TAPE.leftover()


def enumerate_plain(name, args_fn, u_values, max_depth):
    import thefittest.utils.crossovers as cr
    stack = [[]]
    with MR.patched_library():
        f = getattr(cr, name)
        while stack:
            script = stack.pop()
            MR.TAPE.start_script(script)
            try:
                r = f(*args_fn())
            except MR.NeedDraw as e:
                if len(script) >= max_depth:
                    continue
                ext = [("U", u) for u in u_values] if e.kind == "U" else [("I", e.param, v) for v in range(e.param)]
                for d in reversed(ext):
                    stack.append(script + [d])
                continue
            yield script, r


def run(ctx, rep):
    MR.build()
    # the tables the theorems are instantiated with: read from the source AST; cross-checked against what two live
    # GeneticAlgorithm instances (built with different sentinel arguments) actually hold
    rep.extra["pool_tables_source"] = dict(TP.SOURCE)
    try:
        if TP.SOURCE["ga"] == "ast" and not TP.tables_agree(TP.ga_pools(C.SRC), TP.ga_pools_runtime()):
            rep.problem("pools", "the pools a live GeneticAlgorithm instance holds differ from the dict literals read from the source "
                        "(entries added / changed after the literal, or shared between instances)", {}, "pools:ast-vs-runtime", False)
    except TP.TranslateError as e:
        rep.problem("pools", f"pool tables cannot be read from a live instance: {e}", {}, "pools:runtime", False)
    f_cx = C.CoqCases(ctx.scratch, "crossover", IMPORTS, "chk_crossover", "nat * list row * list Q * list Q * list draw * row")
    f_bn = C.CoqCases(ctx.scratch, "binomial", IMPORTS, "chk_binomial", "row * row * Q * list draw * row")
    f_fl = C.CoqCases(ctx.scratch, "flipmut", IMPORTS, "chk_flip_mut", "row * Q * list draw * row")
    f_ga = C.CoqCases(ctx.scratch, "wiring", IMPORTS, "chk_ga", "bool * attrs * (string * string * string) * list row * list Q * list Q * list draw * row", shard=150)
    f_sh = C.CoqCases(ctx.scratch, "shaga", IMPORTS, "chk_shaga", "list row * list Q * row * Q * Q * list draw * row", shard=150)
    f_ga.imports = IMPORTS + ("\nDefinition chk_ga (c : bool * attrs * (string * string * string) * list row * list Q * list Q * list draw * row) : bool :="
                              "\n  let '(pdp, a, (sn, cn, mn), pop, fs, fr, ds, out) := c in"
                              "\n  chk_row (ga_new_individ pdp selection_pool crossover_pool mutation_pool a sn cn mn pop fs fr ds) out.")
    coin_u = [0.0, 0.25, 0.5 - 2.0 ** -54, 0.5, 1.0 - EPS]
    nmax = ctx.pick(4, 5)

    def add_cx(name, ps, f, r, script, out, extra_ok=True, clause=""):
        code = CODES[name]
        cp = GUARD.get(np.asarray(ps).tobytes()) if isinstance(ps, np.ndarray) else None
        if cp is not None and not np.array_equal(cp, ps):
            rep.problem("inputs", f"{name} modified its parents", dict(fn=name, parents=np.asarray(ps).tolist(), after=cp.tolist(), draws=script),
                        "inputs-modified", True, cp.tolist(), np.asarray(ps).tolist(), "C06_inputs_unmodified")
            GUARD[np.asarray(ps).tobytes()] = ps.copy()
        if isinstance(out, np.ndarray) and cp is not None and np.shares_memory(out, cp):
            rep.problem("inputs", f"{name} returned a view of its parents", dict(fn=name, parents=np.asarray(ps).tolist()), "inputs-modified", True)
        case = dict(fn=name, parents=np.asarray(ps).tolist(), fitness=list(map(float, f)), rank=list(map(float, r)), draws=script)
        rep.count(name, (np.asarray(ps).tobytes(), tuple(f), tuple(r), tuple(script)))
        f_cx.add(f"({C.cnat(code)}, {rows(ps)}, {qs(f)}, {qs(r)}, {C.cdraws(script)}, {C.clist([int(v) for v in out], C.cz)})", case)
        return case

    # ---------------- one-point / two-point : all cuts x coin values, labelled parents
    for n in range(2, nmax + 1):
        ps = labelled(2, n)
        fit, rk = [1.0, 2.0], [1.0, 2.0]
        seen1, seen2 = set(), set()
        for script, out in MR.enumerate_outcomes(CX + "one_point_crossover", lambda: (GUARD.setdefault(ps.tobytes(), ps.copy()), np.array(fit), np.array(rk)), coin_u, max_depth=2):
            case = add_cx("one_point_crossover", ps, fit, rk, script, out)
            d, aligned = donors(out, n)
            c, u = script[0][2], script[1][1]
            first = 0 if u < 0.5 else 1
            exp = [first if i <= c else 1 - first for i in range(n)]
            seen1.add(tuple(d))
            if not aligned or d != exp:
                rep.problem("one_point", "child is not 'loci 0..c from one parent, the rest from the other'", case,
                            "one_point:structure", True, [int(v) for v in out], exp, "C06_one_point_sound")
        family1 = {tuple([a if i <= c else 1 - a for i in range(n)]) for c in range(n) for a in (0, 1)}
        if seen1 != family1:
            rep.problem("one_point", "one-point crossover cannot produce every child of its family", dict(n=n, missing=sorted(family1 - seen1), extra=sorted(seen1 - family1)),
                        "one_point:complete", True, None, None, "C06_one_point_complete")
        for script, out in MR.enumerate_outcomes(CX + "two_point_crossover", lambda: (GUARD.setdefault(ps.tobytes(), ps.copy()), np.array(fit), np.array(rk)), coin_u, max_depth=4):
            case = add_cx("two_point_crossover", ps, fit, rk, script, out)
            d, aligned = donors(out, n)
            idx = [s[2] for s in script if s[0] == "I"]
            c0, c1 = min(idx[0], idx[-1]), max(idx[0], idx[-1])
            base = 0 if script[-1][1] < 0.5 else 1
            exp = [1 - base if c0 <= i <= c1 else base for i in range(n)]
            seen2.add(tuple(d))
            if not aligned or d != exp or c0 == c1:
                rep.problem("two_point", "child is not 'segment [c0,c1], c0<c1, from the other parent'", case,
                            "two_point:structure", True, [int(v) for v in out], exp, "C06_two_point_sound")
        family2 = {tuple([1 - a if c0 <= i <= c1 else a for i in range(n)]) for c0 in range(n) for c1 in range(c0 + 1, n) for a in (0, 1)}
        if seen2 != family2:
            rep.problem("two_point", "two-point crossover cannot produce every child of its family", dict(n=n, missing=sorted(family2 - seen2)),
                        "two_point:complete", True, None, None, "C06_two_point_complete")
    # ---------------- uniform family
    for n in range(2, ctx.pick(3, 4) + 1):
        for k in range(1, ctx.pick(3, 4) + 1):
            ps = labelled(k, n)
            fit = [float((3 * p + 1) % 4) for p in range(k)]
            rk = [float(p + 1) for p in range(k)]
            seen = set()
            for script, out in MR.enumerate_outcomes(CX + "uniform_crossover", lambda: (GUARD.setdefault(ps.tobytes(), ps.copy()), np.array(fit), np.array(rk)), [], max_depth=n):
                case = add_cx("uniform_crossover", ps, fit, rk, script, out)
                d, aligned = donors(out, n)
                seen.add(tuple(d))
                if not aligned or d != [s[2] for s in script]:
                    rep.problem("uniform", "uniform crossover: locus i is not parent[draw_i][i]", case, "uniform:structure", True,
                                [int(v) for v in out], None, "C06_gene_from_parent_uniform")
            if len(seen) != k ** n:
                rep.problem("uniform", "uniform crossover cannot produce every locus-wise choice", dict(n=n, k=k, got=len(seen)),
                            "uniform:complete", True, None, None, "C06_uniform_complete")
            # proportional / rank: weights with zeros, u on a grid
            ug = [0.0, EPS, 0.3, 0.5, 0.8, 1.0 - EPS]
            for wname, pick in (("uniform_proportional_crossover", 0), ("uniform_rank_crossover", 1)):
                for w in ([1.0] * k, [float(p % 2) for p in range(k)] if k > 1 else [1.0], [float(p + 1) for p in range(k)]):
                    if sum(w) == 0:
                        continue
                    fa = w if pick == 0 else fit
                    ra = w if pick == 1 else rk
                    for script, out in MR.enumerate_outcomes(CX + wname, lambda: (GUARD.setdefault(ps.tobytes(), ps.copy()), np.array(fa), np.array(ra)), ug, max_depth=n):
                        case = add_cx(wname, ps, fa, ra, script, out)
                        d, aligned = donors(out, n)
                        cs = np.cumsum(np.array(w))
                        exp = [next((j for j, x in enumerate(cs) if cs[-1] * s[1] <= x), k - 1) for s in script]
                        bad = not aligned or d != exp
                        zero = any(w[di] == 0 for di in d if 0 <= di < k)
                        if bad:
                            rep.problem(wname, "locus donor is not the weighted pick of its own draw", case, wname + ":structure", True,
                                        [int(v) for v in out], exp, "C06_gene_from_parent_weighted")
                        elif zero and not all(s[1] == 0.0 for s, di in zip(script, d) if w[di] == 0):
                            rep.problem(wname, "zero-weight parent donated for u>0", case, wname + ":zero", True, d, None, "C06_uniform_weighted")
    # ---------------- uniform tournament (plain python): all contestant draws
    for n in range(1, ctx.pick(2, 2) + 1):
        for k in range(2, ctx.pick(3, 4) + 1):
            ps = labelled(k, n)
            for fit in ([float(p) for p in range(k)], [1.0] * k, [float(k - p) for p in range(k)]):
                rk = [1.0] * k
                seen = set()
                for script, out in enumerate_plain("uniform_tournament_crossover", lambda: (GUARD.setdefault(ps.tobytes(), ps.copy()), np.array(fit), np.array(rk)), [], max_depth=2 * n):
                    case = add_cx("uniform_tournament_crossover", ps, fit, rk, script, out)
                    d, aligned = donors(out, n)
                    seen.update(d)
                    t = [s[2] for s in script]
                    ok = aligned and all(d[i] in (t[2 * i], t[2 * i + 1]) and fit[d[i]] >= max(fit[t[2 * i]], fit[t[2 * i + 1]]) for i in range(n))
                    if not ok:
                        rep.problem("uniform_tour", "per-locus donor is not a fitter one of its two drawn contestants", case,
                                    "uniform_tournament_crossover:position-as-parent", True, [int(v) for v in out], None, "C06_uniform_tour")
                if seen != set(range(k)):
                    rep.problem("uniform_tour", "some parent can never donate", dict(n=n, k=k, fitness=fit, donors=sorted(seen)),
                                "uniform_tournament_crossover:position-as-parent", True, sorted(seen), None, "C06_uniform_tour_every_parent_can_donate")
    # empty
    ps = labelled(3, 4)
    out, log, _ = call_plain("empty_crossover", [], ps.copy(), np.ones(3), np.ones(3))
    add_cx("empty_crossover", ps, [1.0] * 3, [1.0] * 3, [], out)
    if list(out) != list(ps[0]) or log:
        rep.problem("empty", "empty crossover is not a clone of the first parent", dict(parents=ps.tolist()), "empty", True, list(out))
    # ---------------- binomialGA / flip_mutation : all coin outcomes
    ug = [0.0, 0.3, 0.5, 0.7, 1.0 - EPS]
    for n in range(1, ctx.pick(3, 4) + 1):
        x = np.array([i % 2 for i in range(n)], dtype=np.int8)
        m = np.array([10 + i for i in range(n)], dtype=np.int8)
        for CR in (0.0, 0.5, 1.0):
            xa, ma = x.copy(), m.copy()      # the SAME arrays are handed to every call: they must never change
            for script, out in MR.enumerate_outcomes(CX + "binomialGA", lambda: (xa, ma, np.float64(CR)), ug, max_depth=n + 1):
                case = dict(fn="binomialGA", individ=x.tolist(), mutant=m.tolist(), CR=CR, draws=script)
                if not (np.array_equal(xa, x) and np.array_equal(ma, m)) or np.shares_memory(out, xa) or np.shares_memory(out, ma):
                    rep.problem("inputs", "binomialGA modified (or returned a view of) its input", case, "inputs-modified", True,
                                [xa.tolist(), ma.tolist()], [x.tolist(), m.tolist()], "C06_inputs_unmodified")
                    xa, ma = x.copy(), m.copy()
                rep.count("binomialGA", (n, CR, tuple(script)))
                j = int(np.floor(n * script[0][1]))
                exp = [int(m[i]) if (script[1 + i][1] < CR or i == j) else int(x[i]) for i in range(n)]
                if [int(v) for v in out] != exp:
                    rep.problem("binomialGA", "binomial crossover: donor locus j / per-locus coins not honoured", case, "binomialGA", True,
                                [int(v) for v in out], exp, "C06_binomial_at_least_one")
                f_bn.add(f"({C.clist(x.tolist(), C.cz)}, {C.clist(m.tolist(), C.cz)}, {C.cq(CR)}, {C.cdraws(script)}, {C.clist([int(v) for v in out], C.cz)})", case)
        for p in (-0.5, 0.0, 0.3, 0.5, 1.0, 1.5):
            xa = x.copy()
            for script, out in MR.enumerate_outcomes("thefittest.utils.mutations.flip_mutation", lambda: (xa, np.float64(p)), ug, max_depth=n):
                case = dict(fn="flip_mutation", individual=x.tolist(), proba=p, draws=script)
                if not np.array_equal(xa, x) or np.shares_memory(out, xa):
                    rep.problem("inputs", "flip_mutation modified (or returned a view of) its input", case, "inputs-modified", True, xa.tolist(), x.tolist(), "C06_inputs_unmodified")
                    xa = x.copy()
                rep.count("flip_mutation", (n, p, tuple(script)))
                exp = [int(1 - x[i]) if script[i][1] < p else int(x[i]) for i in range(n)]
                if [int(v) for v in out] != exp:
                    rep.problem("flip_mutation", "flip mutation does not flip exactly the loci whose coin fell below the rate", case,
                                "flip_mutation", True, [int(v) for v in out], exp, "C06_flip")
                f_fl.add(f"({C.clist(x.tolist(), C.cz)}, {C.cq(p)}, {C.cdraws(script)}, {C.clist([int(v) for v in out], C.cz)})", case)

    # ---------------- seeded: compiled vs log-mode mirror
    for s in range(ctx.pick(40, 400)):
        seed = ctx.rng.randrange(1 << 30)
        n = ctx.rng.randint(2, 9)
        k = ctx.rng.randint(2, 5)
        ps = np.array([[ctx.rng.randint(0, 1) for _ in range(n)] for _ in range(k)], dtype=np.int8)
        fit = [float(ctx.rng.randint(0, 4)) for _ in range(k)]
        if sum(fit) == 0:
            fit[0] = 1.0
        rk = [float(ctx.rng.randint(1, 4)) for _ in range(k)]
        for name in ("one_point_crossover", "two_point_crossover", "uniform_crossover", "uniform_proportional_crossover", "uniform_rank_crossover"):
            MR.seed(seed)
            oc = MR.compiled(CX + name)(ps.copy(), np.array(fit), np.array(rk))
            MR.seed(seed)
            om, log = MR.run_log(CX + name, ps.copy(), np.array(fit), np.array(rk))
            rep.traces += 1
            case = add_cx(name, ps, fit, rk, log, oc)
            case["seed"] = seed
            if list(oc) != list(om):
                rep.problem("seeded", f"compiled {name} and log-mode mirror disagree under the same seed", case, "seeded:compiled-vs-mirror", False, list(oc), list(om))
            if len(oc) != n or any(int(oc[i]) not in set(int(v) for v in ps[:, i]) for i in range(n)):
                rep.problem("seeded", f"{name}: a locus of the child is not that locus of any parent", case, "seeded:" + name, True, list(oc), None, "C06_gene_from_parent")
        if s == 0:
            rep.sample(case)

    # ---------------- harvested: live runs, wiring through the generated pools
    harvest(ctx, rep, f_ga, f_sh)

    for fc in (f_cx, f_bn, f_fl, f_ga, f_sh):
        bad, errors = fc.run()
        rep.hist("coq_cases", fc.name + ":" + str(len(fc)))
        for e in errors:
            rep.problem(fc.name, "model evaluation failed: %s" % (e,), {}, "model-eval", False)
        for i in bad[:20]:
            rep.problem(fc.name, "model and implementation disagree", fc.meta[i], fc.name + ":model-vs-impl", False, None, fc.explain(i, "c")[:1500])
    rep.exhaustive = True
    rep.exhaustive_note = f"all draw outcomes: one/two-point n<={nmax}; uniform family n<={ctx.pick(3,4)}, k<={ctx.pick(3,4)}; binomial/flip n<={ctx.pick(3,4)} on the u grid"


def expected_child(kind, names, tour_size, parents_num, rate, pop, fscale, frank, draws):
    """independent replay of what the configured names PROMISE (parsed from the names, not from the pools):
    the library's own selection / crossover / mutation functions are re-run in script mode on the recorded
    draws with the promised parameters"""
    import thefittest.utils.selections as se
    import thefittest.utils.crossovers as cr
    import thefittest.utils.mutations as mu
    sn, cn, mn = names
    if sn == "proportional":
        sf, tour = "proportional_selection", 0
    elif sn == "rank":
        sf, tour = "rank_selection", 0
    else:
        sf, tour = "tournament_selection", (tour_size if sn.endswith("_k") else int(sn.rsplit("_", 1)[1]))
    fixed = {"empty": ("empty_crossover", 1), "one_point": ("one_point_crossover", 2), "two_point": ("two_point_crossover", 2)}
    if cn in fixed:
        cf, q = fixed[cn]
    else:
        stem, num = cn.rsplit("_", 1)
        cf = {"uniform": "uniform_crossover", "uniform_prop": "uniform_proportional_crossover",
              "uniform_rank": "uniform_rank_crossover", "uniform_tour": "uniform_tournament_crossover"}[stem]
        q = parents_num if num == "k" else int(num)
    pop, fscale, frank = np.asarray(pop), np.asarray(fscale, dtype=np.float64), np.asarray(frank, dtype=np.float64)
    with MR.patched_library():
        MR.TAPE.start_script(draws)
        sel = getattr(se, sf)(fscale, frank, np.int64(tour), np.int64(q))
        if kind == "PDPGA":
            MR.TAPE.randint(0, len(sel))
        child = getattr(cr, cf)(pop[sel], fscale[sel], frank[sel])
        p = rate if mn == "custom_rate" else {"weak": 1 / 3, "average": 1, "strong": 3}[mn] / len(child)
        out = mu.flip_mutation(child, np.float64(p))
        left = MR.TAPE.leftover()
    return [int(v) for v in out], left


def harvest(ctx, rep, f_ga, f_sh):
    from thefittest.optimizers import GeneticAlgorithm, SelfCGA, PDPGA, SHAGA
    sel_names = ["proportional", "rank", "tournament_k", "tournament_3", "tournament_5", "tournament_7"]
    cx_names = ["empty", "one_point", "two_point", "uniform_2", "uniform_7", "uniform_k", "uniform_prop_2", "uniform_prop_7",
                "uniform_prop_k", "uniform_rank_2", "uniform_rank_7", "uniform_rank_k", "uniform_tour_3", "uniform_tour_7", "uniform_tour_k"]
    mu_names = ["weak", "average", "strong", "custom_rate"]
    configs = []
    combos = [(s, c, m) for s in sel_names for c in cx_names for m in mu_names]
    ctx.rng.shuffle(combos)
    # make sure every pool entry is used at least once
    picked, need = [], set(sel_names + cx_names + mu_names)
    for s, c, m in combos:
        if {s, c, m} & need:
            picked.append((s, c, m))
            need -= {s, c, m}
    picked += combos[: ctx.pick(4, 60)]
    for s, c, m in picked:
        configs.append(("GA", dict(selection=s, crossover=c, mutation=m)))
    configs += [("SelfCGA", {}), ("PDPGA", {}), ("SHAGA", {})] * ctx.pick(1, 6)
    # populations SMALLER than the configured parent count (the parents are drawn with repetition: 7 parents from 5 individuals)
    small = [("GA", dict(selection=s_, crossover=c_, mutation="weak", _small=True))
             for s_, c_ in zip(["rank", "proportional", "tournament_3", "rank", "tournament_k"],
                               ["uniform_7", "uniform_prop_7", "uniform_rank_7", "uniform_tour_7", "uniform_k"])]
    configs += small[: ctx.pick(3, 5)] if ctx.quick else small
    for kind, kw in configs:
        kw = dict(kw)
        is_small = kw.pop("_small", False)
        seed = ctx.rng.randrange(1 << 30)
        n = ctx.rng.randint(4, 8)
        pop = ctx.rng.randint(8, 10)
        tour, parents, rate = ctx.rng.randint(2, 4), ctx.rng.randint(2, 4), ctx.rng.choice([0.0, 0.125, 0.5, 1.0])
        if is_small:
            pop, tour, parents = ctx.rng.randint(4, 6), ctx.rng.randint(2, 3), ctx.rng.randint(6, 7)
        obj = L.Objective(ctx.rng.choice(["onemax", "plateau", "weighted", "const"]))      # const: every generation is a plateau
        records, shapes = [], []
        REC_NAMES = (["thefittest.utils.selections." + x for x in ("proportional_selection", "rank_selection", "tournament_selection")] +
                     [CX + x for x in CODES] + ["thefittest.utils.mutations.flip_mutation"])
        with L.log_mode(REC_NAMES):
            if kind == "SHAGA":
                opt = SHAGA(obj, iters=4, pop_size=pop, str_len=n, random_state=seed)
                orig = opt._get_new_individ_g

                def w(individ_g, MR_, CR_, orig=orig, opt=opt):
                    start = len(MR.TAPE.log)
                    pg, fi, x0 = L.snap(opt._population_g_i), L.snap(opt._fitness_i), L.snap(individ_g)
                    out = orig(individ_g, MR_, CR_)
                    records.append(dict(kind="shaga", pop=pg, fitness=fi, x=x0, MR=float(MR_), CR=float(CR_), out=L.snap(out),
                                        draws=list(MR.TAPE.log[start:]), unmodified=L.same(pg, opt._population_g_i) and L.same(x0, individ_g)))
                    return out
                opt._get_new_individ_g = lambda individ_g, MR, CR: w(individ_g, MR, CR)
            else:
                cls = dict(GA=GeneticAlgorithm, SelfCGA=SelfCGA, PDPGA=PDPGA)[kind]
                opt = cls(obj, iters=4, pop_size=pop, str_len=n, tour_size=tour, parents_num=parents, mutation_rate=rate,
                          random_state=seed, elitism=bool(seed % 3), **kw)
                orig = opt._get_new_individ_g

                def w(sn, cn, mn, orig=orig, opt=opt):
                    start = len(MR.TAPE.log)
                    c0 = len(L.REC.calls)
                    pg, fs, fr = L.snap(opt._population_g_i), L.snap(opt._fitness_scale_i), L.snap(opt._fitness_rank_i)
                    out = orig(sn, cn, mn)
                    records.append(dict(kind="ga", names=(str(sn), str(cn), str(mn)), pop=pg, fscale=fs, frank=fr, out=L.snap(out), fit=L.snap(opt._fitness_i),
                                        draws=list(MR.TAPE.log[start:]), unmodified=L.same(pg, opt._population_g_i),
                                        calls=list(L.REC.calls[c0:])))
                    return out
                opt._get_new_individ_g = w
            opt._on_generation = lambda o: shapes.append((L.snap(o._population_g_i),))
            opt.fit()
            shapes.append((L.snap(opt._population_g_i),))
        rep.traces += 1
        rep.hist("harvest_kind", kind)
        for (pg,) in shapes:
            pg = np.asarray(pg)
            if pg.shape != (pop, n) or not np.isin(pg, (0, 1)).all():
                rep.problem("population", f"{kind}: population is not pop_size x str_len over {{0,1}}", dict(kind=kind, kw=kw, seed=seed, shape=list(pg.shape)),
                            "population-shape", True, pg.tolist(), None, "C06_population_shape")
        for r in records:
            draws = [d for d in r["draws"]]
            # a k-tournament is k DISTINCT individuals, the fittest wins: whatever the draws were, a winner has at least k-1 other
            # individuals that are not fitter than it (checked on the arguments and result of the selection call itself)
            if r["kind"] == "ga" and r["names"][0].startswith("tournament") and len(r.get("calls", [])) == 3:
                selc = r["calls"][0]
                k_ = tour if r["names"][0].endswith("_k") else int(r["names"][0].rsplit("_", 1)[1])
                fs0 = np.asarray(selc["args"][0], dtype=np.float64)
                for w_ in np.asarray(selc["out"]).astype(int):
                    rep.count("tournament-winner", (seed, len(rep.nontrivial)), nontrivial=False)
                    if k_ <= len(fs0) and int(np.sum(fs0 <= fs0[w_])) - 1 < k_ - 1:
                        rep.problem("wiring", f"{kind} with {r['names'][0]}: a selected parent cannot have won a tournament of {k_} distinct individuals "
                                    f"(only {int(np.sum(fs0 <= fs0[w_])) - 1} others are not fitter)",
                                    dict(fn="tournament_selection", optimizer=kind, names=list(r["names"]), tour_size=k_, fitness=fs0.tolist(), selected=int(w_), seed=seed, pop_size=pop),
                                    "tournament-not-k-distinct", True, int(w_), None, "C06_pools_named")
                        break
            if any(d[0] not in ("U", "I") for d in draws):
                rep.hist("record_with_other_draw_kinds", str(sorted({d[0] for d in draws})))
                rep.problem("wiring", f"{kind} {r.get('names')}: the operators drew random numbers of a kind the named operators do not use: {sorted({d[0] for d in draws})}",
                            dict(optimizer=kind, names=list(r.get("names", [])), seed=seed, draws=draws[:12]), "unknown-draw-kind", False)
                continue
            if not r["unmodified"]:
                rep.problem("inputs", f"{kind}: an operator modified its inputs", dict(kind=kind, kw=kw, seed=seed), "inputs-modified", True)
            if r["kind"] == "ga":
                sn, cn, mn = r["names"]
                rep.count("wiring", (seed, len(rep.nontrivial)))
                rep.hist("pool_entry", sn), rep.hist("pool_entry", cn), rep.hist("pool_entry", mn)
                case = dict(fn="_get_new_individ_g", optimizer=kind, names=[sn, cn, mn], tour_size=tour, parents_num=parents, mutation_rate=rate,
                            pop=np.asarray(r["pop"]).tolist(), fscale=list(map(float, r["fscale"])), frank=list(map(float, r["frank"])),
                            draws=draws, out=[int(v) for v in r["out"]], seed=seed)
                # argument-level wiring: what the optimizer handed to the configured operators (donor identity is
                # invisible in converged binary populations, the arguments are not)
                # the weight / rank vectors the fitness-based operators work with are the documented transforms of the current
                # fitness: min-max scaling (ONES on a plateau, so that every individual keeps a positive weight) and average ranks
                fit_ = np.asarray(r["fit"], dtype=np.float64)
                lo_, hi_ = float(fit_.min()), float(fit_.max())
                ref_scale = np.ones(len(fit_)) if lo_ == hi_ else (fit_ - lo_) / (hi_ - lo_)
                ref_rank = np.array([1 + np.sum(fit_ < v) + (np.sum(fit_ == v) - 1) / 2 for v in fit_], dtype=np.float64)
                if not (np.allclose(np.asarray(r["fscale"], dtype=np.float64), ref_scale, rtol=0, atol=1e-12) and np.array_equal(np.asarray(r["frank"], dtype=np.float64), ref_rank)):
                    rep.problem("wiring", f"{kind}: the scaled-fitness / rank vectors used by the fitness-based operators are not the min-max scaling "
                                "(ones on a plateau) / average ranks of the current fitness",
                                dict(fn="_get_new_individ_g", optimizer=kind, names=[sn, cn, mn], seed=seed, fitness=fit_.tolist(),
                                     fscale=np.asarray(r["fscale"]).tolist(), frank=np.asarray(r["frank"]).tolist()),
                                "fitness-weights", True, np.asarray(r["fscale"]).tolist(), ref_scale.tolist(), "C06_new_individual")
                calls = r.get("calls", [])
                if len(calls) == 3:
                    selc, cxc, muc = calls
                    ids = np.asarray(selc["out"]).astype(int)
                    pg_, fs_, fr_ = np.asarray(r["pop"]), np.asarray(r["fscale"]), np.asarray(r["frank"])
                    okargs = (L.same(selc["args"][0], fs_) and L.same(selc["args"][1], fr_)
                              and L.same(cxc["args"][0], pg_[ids]) and L.same(cxc["args"][1], fs_[ids]) and L.same(cxc["args"][2], fr_[ids])
                              and L.same(muc["args"][0], cxc["out"]) and all(c["inputs_unmodified"] for c in calls))
                    if not okargs:
                        rep.problem("wiring", f"{kind} with ({sn}, {cn}, {mn}): the operators did not receive (population[selected], "
                                    "scaled fitness[selected], rank[selected]) / the crossover's child, or an operator modified its inputs",
                                    dict(fn="_get_new_individ_g", optimizer=kind, names=[sn, cn, mn], selected=ids.tolist(), seed=seed,
                                         crossover_fitness_arg=np.asarray(cxc["args"][1]).tolist(), crossover_rank_arg=np.asarray(cxc["args"][2]).tolist(),
                                         fscale_selected=fs_[ids].tolist(), frank_selected=fr_[ids].tolist()),
                                    f"wiring-args:{cn}", True, None, None, "C06_new_individual")
                elif calls:
                    rep.hist("unexpected_call_count", len(calls))
                try:
                    exp, left = expected_child(kind, (sn, cn, mn), tour, parents, rate, r["pop"], r["fscale"], r["frank"], draws)
                except MR.DrawError as e:
                    exp, left = f"DrawError: {e}", 0
                if exp != case["out"] or left:
                    rep.problem("wiring", f"{kind} with ({sn}, {cn}, {mn}) does not apply the operators / parameters these names promise "
                                f"(tournament size, parent count, rate k/str_len)", case, f"wiring:{sn}:{cn}:{mn}", True, case["out"], exp, "C06_pools_named")
                a = f"{{| a_tour := {C.cz(tour)}; a_parents := {C.cz(parents)}; a_rate := {C.cq(rate)} |}}"
                f_ga.add(f'({C.cbool(kind == "PDPGA")}, {a}, ("{sn}", "{cn}", "{mn}"), {rows(r["pop"])}, {qs(r["fscale"])}, {qs(r["frank"])}, {C.cdraws(draws)}, '
                         f'{C.clist([int(v) for v in r["out"]], C.cz)})', case)
            else:
                rep.count("shaga", (seed, len(rep.nontrivial)))
                case = dict(fn="SHAGA._get_new_individ_g", pop=np.asarray(r["pop"]).tolist(), fitness=list(map(float, r["fitness"])),
                            x=[int(v) for v in r["x"]], MR=r["MR"], CR=r["CR"], draws=draws, out=[int(v) for v in r["out"]], seed=seed)
                f_sh.add(f'({rows(r["pop"])}, {qs(r["fitness"])}, {C.clist([int(v) for v in r["x"]], C.cz)}, {C.cq(r["MR"])}, {C.cq(r["CR"])}, '
                         f'{C.cdraws(draws)}, {C.clist([int(v) for v in r["out"]], C.cz)})', case)
        if records:
            rep.sample({k: (v if k != "pop" else "...") for k, v in C.jsonable(records[0]).items()})


def replay(ctx, rp):
    return None      # generic replay of harness/main.py
