"""C08 — GP variation is closed: offspring are well-formed trees within max_level.

Correspondence model (coq/theories/GPOps.v) <-> implementation (base/_tree.py, utils/crossovers.py,
utils/mutations.py, optimizers/_geneticprogramming.py).

Every case is executed in MIRROR mode first (the library's compiled helpers run as plain python with
the primitive RNG calls scripted or logged): an index that went stale raises IndexError there,
where the compiled helper would read foreign memory (spiked: segfault).  The compiled library is
only run on (input, seed) pairs whose mirror run returned normally — it then follows the same path.

On the implementation's output an INDEPENDENT python recursion (nested tuples, no library code)
evaluates the property: recorded arity = symbol arity, the arities describe exactly one tree, every
symbol from a parent or the universal set, depth <= max_level when the parents are, parents
unmodified, and the behaviour the operator is named after."""
from __future__ import annotations

import json
import math
import os

import numpy as np

import common as C
import live as L
import mirror as MR

RULE = ("enumerated (script mode): ALL well-formed tree shapes with <= N nodes over arities {0,1,2,3} (N=5 quick, "
        "7 thorough; arity 4 and larger trees in the generated family), every node carrying its own label, x ALL index "
        "draws of every operator (cut points, coin sides, node / argument choices, every Sattolo outcome, every donor "
        "vector of the uniform family, every symbol choice of point mutation, every outcome of grow/full/half-and-half "
        "for small depth); generated: random trees to depth 6 over arities {0..4} with ephemeral constants, parent "
        "tuples of 2-7, fitness / rank vectors with ties and zeros, seeded compiled run == log-mode mirror == model; "
        "harvested: every crossover / mutation call and every evaluated tree of live GeneticProgramming / SelfCGP / "
        "PDPGP runs over every GP pool entry. Each case: mirror first, python predicate on the implementation's "
        "output, Coq model on the same draws. distinct = (operator, parents, parameters, draws).")
ASSUMPTIONS = ["parents are well-formed trees over the universal set; function symbols have arity >= 1, terminals 0",
               "ephemeral generators return a value (the model's generator: base + randint(0, n, 1)[0])",
               "half_and_half: 2 <= max_level (randint(2, max_level) otherwise has an empty or reversed range)",
               "UniversalSet only (EnsembleUniversalSet's weighted _random_functional is not modelled)"]
TRUSTED = ["models: coq/theories/GPOps.v (+ Tree.v TreeIdx.v RandomPrims.v); checkers C08Check.v",
           "termination of the rejection / growth loops (fuel = number of draws supplied)"]
THEORIES = ["Base", "RandomPrims", "RandomPrimsProofs", "RandomPrimsProofs2", "Tree", "TreeIdx", "TreeEval",
            "TreeProofs", "TreeProofs2", "TreeCR", "C11Check", "C09Check", "GPOps", "GPOpsProofs",
            "GPOpsProofs2", "GPOpsProofs3", "GPOpsProofs4", "GPOpsProofs5", "TreeCRk", "GPOpsProofs6", "C08Check"]
IMPORTS = ("From Coq Require Import List Arith ZArith QArith.\n"
           "From TF Require Import Base RandomPrims Tree TreeIdx GPOps C09Check C08Check.\nOpen Scope nat_scope.")
CTYPE = ("nat * list (ptree sy) * (list Q * list Q) * (nat * nat * Q) * uni * list draw * option (list (ptree sy))")
SIG_SWAP = "swap_mutation:stale-splice-positions"

CODES = {"empty_crossoverGP": 0, "standard_crossover": 1, "one_point_crossoverGP": 2, "uniform_crossoverGP": 3,
         "uniform_proportional_crossover_GP": 4, "uniform_rank_crossover_GP": 5, "uniform_tournament_crossover_GP": 6,
         "point_mutation": 10, "growing_mutation": 11, "swap_mutation": 12, "shrink_mutation": 13,
         "full_growing_method": 20, "growing_method": 21, "random_tree": 22, "half_and_half": 23}
CROSSOVERS = [k for k, v in CODES.items() if v < 10]
MUTATIONS = [k for k, v in CODES.items() if 10 <= v < 20]
EPH_BASE, EPH_N = 24, 3
FB = 32   # function symbol (arity a, index k) has identifier FB*a + k; terminals x_j: j < 16; ephemeral constants: EPH_BASE + value


# =========================================================================== independent recursion
# a symbol is (identifier, arity); a nested tree is (symbol, [children])
def parse(syms, nargs=None):
    """nested tree of a prefix list, or None when the list is not exactly one complete tree (the
    recorded arity array, when given, must equal the symbols' arities)"""
    if nargs is not None and [int(n) for n in nargs] != [s[1] for s in syms]:
        return None
    pos = 0

    def rec():
        nonlocal pos
        if pos >= len(syms):
            raise ValueError
        s = syms[pos]
        pos += 1
        return (s, [rec() for _ in range(s[1])])
    try:
        t = rec()
    except ValueError:
        return None
    return t if pos == len(syms) else None


def flat(t):
    out = [t[0]]
    for k in t[1]:
        out += flat(k)
    return out


def size(t):
    return 1 + sum(size(k) for k in t[1])


def depth(t):
    return max([1 + depth(k) for k in t[1]], default=0)


def sub_at(t, i):
    if i == 0:
        return t
    i -= 1
    for k in t[1]:
        n = size(k)
        if i < n:
            return sub_at(k, i)
        i -= n
    raise IndexError


def level_at(t, i):
    if i == 0:
        return 0
    i -= 1
    for k in t[1]:
        n = size(k)
        if i < n:
            return 1 + level_at(k, i)
        i -= n
    raise IndexError


def replace_at(t, i, u):
    if i == 0:
        return u
    i -= 1
    kids = []
    done = False
    for k in t[1]:
        n = size(k)
        if not done and i < n:
            kids.append(replace_at(k, i, u))
            done = True
        else:
            kids.append(k)
            if not done:
                i -= n
    return (t[0], kids)


def leaves_levels(t, lv=0):
    if not t[1]:
        return [lv]
    out = []
    for k in t[1]:
        out += leaves_levels(k, lv + 1)
    return out


def common_rec(ts):
    """recursive common region of k nested trees: list of (positions per tree, is_border)"""
    out = []

    def rec(nodes, offs):
        ars = {nd[0][1] for nd in nodes}
        if len(ars) == 1:
            out.append((tuple(offs), False))
            co = [o + 1 for o in offs]
            for kids in zip(*[nd[1] for nd in nodes]):
                rec(list(kids), co)
                co = [o + size(k) for o, k in zip(co, kids)]
        else:
            out.append((tuple(offs), True))
    rec(ts, [0] * len(ts))
    return out


def mix_expected(ts, pool):
    """the child the uniform family promises: per common position the node (interior) or the whole
    subtree (border) of parent pool[i] at that position, i counting common positions in prefix order"""
    it = iter(pool)

    def rec(nodes):
        j = next(it)
        ars = {nd[0][1] for nd in nodes}
        if len(ars) == 1:
            return (nodes[j][0], [rec(list(kids)) for kids in zip(*[nd[1] for nd in nodes])])
        return nodes[j]
    return rec(ts)


def shapes(n, maxar=3):
    out = []

    def go(prefix, need):
        if len(prefix) == n:
            if need == 0:
                out.append(tuple(prefix))
            return
        if need == 0:
            return
        for a in range(maxar + 1):
            if need - 1 + a <= n - len(prefix) - 1:
                go(prefix + [a], need - 1 + a)
    go([], 1)
    return out


def label(shape, off=0, mod=None):
    """symbols for an arity array: position k gets label off+k (mod `mod`) within its arity class"""
    return [((FB * a if a else 0) + ((off + k) % mod if mod else off + k), a) for k, a in enumerate(shape)]


def rand_shape(rng, max_depth, arities, p_leaf=0.3, max_nodes=60):
    out = []

    def rec(lv):
        if lv >= max_depth or len(out) >= max_nodes or (lv > 0 and rng.random() < p_leaf):
            out.append(0)
            return
        a = rng.choice(arities)
        out.append(a)
        for _ in range(a):
            rec(lv + 1)
    rec(0)
    return out


# =========================================================================== library objects
def eph3():
    import thefittest.utils.random as R
    return int(R.randint(0, EPH_N, 1)[0])


class Lib:
    def __init__(self):
        from thefittest.base import _tree as T
        from thefittest import utils as U
        import thefittest.utils.crossovers as CX
        import thefittest.utils.mutations as MU
        from thefittest.optimizers import GeneticProgramming
        self.T, self.U, self.CX, self.MU, self.GP = T, U, CX, MU, GeneticProgramming
        self._f, self._x, self._e = {}, {}, {}
        self.ephnode = T.EphemeralNode(eph3)

    def fn(self, a, k):
        if (a, k) not in self._f:
            op = eval("lambda " + ",".join(f"a{i}" for i in range(a)) + ": 0")
            fmt = f"f{a}_{k}(" + ",".join(["{}"] * a) + ")"
            self._f[(a, k)] = self.T.FunctionalNode(self.U.create_operator(fmt, f"f{a}_{k}", f"f{a}_{k}", op))
        return self._f[(a, k)]

    def tn(self, j):
        if j not in self._x:
            self._x[j] = self.T.TerminalNode(float(j), f"x{j}")
        return self._x[j]

    def en(self, v):
        if v not in self._e:
            self._e[v] = self.T.EphemeralConstantNode(value=v, name=str(v))
        return self._e[v]

    def node(self, s):
        i, a = s
        if a > 0:
            return self.fn(a, i - FB * a)
        return self.en(i - EPH_BASE) if i >= EPH_BASE else self.tn(i)

    def sy(self, node):
        T = self.T
        if isinstance(node, T.EphemeralConstantNode):
            return (EPH_BASE + int(node._value), 0)
        if isinstance(node, T.FunctionalNode):
            a, k = node._name[1:].split("_")
            return (FB * int(a) + int(k), int(node._n_args))
        if isinstance(node, T.TerminalNode):
            return (int(node._name[1:]), 0)
        raise TypeError(f"unexpected node {node!r}")

    def tree(self, syms):
        return self.T.Tree([self.node(s) for s in syms])

    def enc(self, tree):
        return [self.sy(n) for n in tree._nodes], [int(v) for v in tree._n_args]

    def uniset(self, uspec):
        funcs, terms = uspec
        fs = tuple(self.fn(a, k) for a, k in funcs)
        ts = tuple(self.ephnode if t == "E" else self.tn(t) for t in terms)
        return self.T.UniversalSet(fs, ts)

    def call(self, op, trees, fit, rk, ml, pop, proba, uni):
        if op in CROSSOVERS:
            arr = np.empty(len(trees), dtype=object)
            for i, t in enumerate(trees):
                arr[i] = t
            return [getattr(self.CX, op)(arr, np.array(fit, dtype=np.float64), np.array(rk, dtype=np.float64), ml)]
        if op in MUTATIONS:
            return [getattr(self.MU, op)(trees[0], uni, proba, ml)]
        if op == "half_and_half":
            return list(self.GP.half_and_half(pop, uni, ml))
        return [getattr(self.T.Tree, op)(uni, ml)]


LIB = None


def lib():
    global LIB
    if LIB is None:
        LIB = Lib()
    return LIB


# =========================================================================== coq literals
def c_sy(s):
    return f"({C.cnat(s[0])}, {C.cnat(s[1])})"


def c_pt(p):
    syms, nargs = p
    return "(" + C.clist(syms, c_sy) + ", " + C.clist(nargs, C.cnat) + ")"


def c_uni(uspec):
    funcs, terms = uspec
    fs = C.clist([(FB * a + k, a) for a, k in funcs], c_sy)
    ts = C.clist([f"(1%nat, {C.cnat(EPH_BASE)}, {C.cnat(EPH_N)})" if t == "E" else f"(0%nat, {C.cnat(t)}, 0%nat)" for t in terms])
    return f"({fs}, {ts})"


def to_script(log):
    out = []
    for d in log:
        if d[0] in ("U", "I", "X"):
            out.append(tuple(d))
        elif d[0] == "XU":
            out += [("X", v) for v in d[3]]
        else:
            raise ValueError(f"draw kind outside the model: {d}")
    return out


def uni_syms(uspec):
    funcs, terms = uspec
    s = {(FB * a + k, a) for a, k in funcs}
    for t in terms:
        if t == "E":
            s |= {(EPH_BASE + v, 0) for v in range(EPH_N)}
        else:
            s.add((t, 0))
    return s


def idx_u(n):
    return [(k + 0.5) / n for k in range(n)]


# =========================================================================== one case
class Checker:
    def __init__(self, ctx, rep):
        self.ctx, self.rep = ctx, rep
        self.cases = C.CoqCases(ctx.scratch, "gpops", IMPORTS, "chk_op", CTYPE, shard=400)      # enumerated: small trees
        self.cases_big = C.CoqCases(ctx.scratch, "gpops_big", IMPORTS, "chk_op", CTYPE, shard=120)  # generated / harvested
        self.crk = C.CoqCases(ctx.scratch, "region", IMPORTS, "chk_region", "list (list sy)", shard=300)
        self.crk_seen = set()
        self.unis = {}

    def uni_name(self, uspec):
        """universal sets are defined once in the header of the case files and referred to by name"""
        lit = c_uni(uspec)
        if lit not in self.unis:
            self.unis[lit] = f"US{len(self.unis)}"
            self.cases.imports = IMPORTS + "\n" + "\n".join(f"Definition {n} : uni := {l}." for l, n in self.unis.items())
            self.cases_big.imports = self.cases.imports
        return self.unis[lit]

    def case(self, family, op, ps, fit, rk, ml, pop, proba, uspec, script, outs, err, extra=None, code=None):
        """ps: parents as (syms, nargs) BEFORE the call; outs: list of Tree objects (or None when the
        implementation raised); returns the case dict"""
        rep = self.rep
        L_ = lib()
        enc_out = None if outs is None else [L_.enc(o) for o in outs]
        case = dict(op=op, parents=[[list(map(list, p[0])), list(p[1])] for p in ps], fitness=list(map(float, fit)),
                    rank=list(map(float, rk)), max_level=ml, pop_size=pop, proba=float(proba),
                    uniset=[list(map(list, uspec[0])), list(uspec[1])], draws=[list(d) for d in script],
                    out=None if enc_out is None else [[list(map(list, o[0])), o[1]] for o in enc_out], error=err)
        if extra:
            case.update(extra)
        rep.count(family + ":" + op, (op, repr(ps), tuple(fit), tuple(rk), ml, pop, float(proba), repr(uspec), repr(script)))
        rep.hist("op", op)
        c_out = "None" if enc_out is None else "(Some " + C.clist(enc_out, c_pt) + ")"
        (self.cases if family in ("enum", "replay", "corpus") else self.cases_big).add(f"({C.cnat(CODES[op] if code is None else code)}, {C.clist(ps, c_pt)}, ({C.clist(fit, C.cq)}, {C.clist(rk, C.cq)}), "
                       f"({C.cnat(ml)}, {C.cnat(pop)}, {C.cq(proba)}), {self.uni_name(uspec)}, {C.cdraws(script)}, {c_out})", case)
        if op in CROSSOVERS and CODES[op] >= 3 and len(ps) != 2:
            key = tuple(tuple(p[0]) for p in ps)
            if key not in self.crk_seen and all(parse(p[0]) is not None for p in ps):
                self.crk_seen.add(key)
                self.crk.add(C.clist([C.clist(p[0], c_sy) for p in ps]), dict(parents=case["parents"]))
        self.predicate(family, case, ps, enc_out, err, uspec, ml)
        return case

    # ------------------------------------------------------------------ the property on the implementation's output
    def predicate(self, family, case, ps, enc_out, err, uspec, ml):
        rep, op = self.rep, case["op"]
        sig = SIG_SWAP if op == "swap_mutation" else f"{op}:closure"

        def bad(what, clause, impl=None, exp=None, signature=None):
            rep.problem(family, f"{op}: {what}", case, signature or sig, True, impl, exp, clause)
        if enc_out is None:
            bad(f"the operator raised {err} (an index that is out of range; the compiled helper reads it unchecked)",
                f"C08_{op}_wf")
            return
        pts = [parse(p[0], p[1]) for p in ps]
        if any(t is None for t in pts):
            return   # not a case of the property (malformed parent) — never generated
        allowed = uni_syms(uspec) | {s for p in ps for s in p[0]}
        pdepth = max([depth(t) for t in pts], default=0)
        for o in enc_out:
            t = parse(o[0], o[1])
            if t is None:
                bad("child is not a well-formed prefix tree (recorded arity != symbol arity, or the arities do not "
                    "describe exactly one tree)", f"C08_{op}_wf", o)
                return
            if not set(o[0]) <= allowed:
                bad("child contains a symbol that is neither in a parent nor in the universal set", f"C08_{op}_wf",
                    sorted(set(o[0]) - allowed))
                return
            if (ps and pdepth <= ml and depth(t) > ml) or (not ps and depth(t) > ml):
                bad(f"child depth {depth(t)} exceeds max_level {ml} (parents: {pdepth})", f"C08_{op}_depth", o)
                return
        named = getattr(self, "named_" + op, None)
        if named is not None:
            msg = named(case, pts, [parse(o[0], o[1]) for o in enc_out], uspec, ml)
            if msg:
                bad(msg[0], f"C08_{op}_named", [flat(t) for t in [parse(o[0], o[1]) for o in enc_out]], msg[1] if len(msg) > 1 else None)

    # scripted draws by kind
    @staticmethod
    def _draws(case, kind):
        return [d[-1] if kind == "I" else d[1] for d in case["draws"] if d[0] == kind]

    def named_empty_crossoverGP(self, case, pts, outs, uspec, ml):
        if outs[0] != pts[0] or case["draws"]:
            return ("child is not a copy of the first parent",)

    def named_standard_crossover(self, case, pts, outs, uspec, ml):
        p1, p2 = pts[0], pts[1]
        c = outs[0]
        u = self._draws(case, "U")
        if size(p1) * size(p2) <= 150 or len(u) != 3:     # existential form (all transplants) on small parents
            cands = []
            for (donor, host) in ((p1, p2), (p2, p1)):
                for a in range(size(donor)):
                    for b in range(size(host)):
                        e = replace_at(host, b, sub_at(donor, a))
                        cands.append(e if depth(e) <= ml else host)
            if c not in cands:
                return ("child is not 'one subtree of one parent spliced at one point of the other (or that other parent when too deep)'",)
        if len(u) == 3:
            a, b = int(math.floor(size(p1) * u[0])), int(math.floor(size(p2) * u[1]))
            donor, da, host, hb = (p1, a, p2, b) if u[2] < 0.5 else (p2, b, p1, a)
            e = replace_at(host, hb, sub_at(donor, da))
            e = e if depth(e) <= ml else host
            if c != e:
                return ("child is not the transplant its own draws select", flat(e))

    def named_one_point_crossoverGP(self, case, pts, outs, uspec, ml):
        p1, p2 = pts[0], pts[1]
        com = common_rec([p1, p2])
        u = self._draws(case, "U")
        cands = []
        for (pos, _) in com:
            cands.append(replace_at(p2, pos[1], sub_at(p1, pos[0])))
            cands.append(replace_at(p1, pos[0], sub_at(p2, pos[1])))
        if outs[0] not in cands:
            return ("child is not an exchange of the subtrees at one position of the common region",)
        if len(u) == 2:
            pos = com[int(math.floor(len(com) * u[0]))][0]
            e = replace_at(p2, pos[1], sub_at(p1, pos[0])) if u[1] < 0.5 else replace_at(p1, pos[0], sub_at(p2, pos[1]))
            if outs[0] != e:
                return ("child is not the exchange its own draws select", flat(e))

    def _uniform(self, case, pts, outs, pool):
        com = common_rec(pts)
        if len(pool) != len(com) or any(not (0 <= j < len(pts)) for j in pool):
            return (f"donor vector has the wrong length / range: {pool} for {len(com)} common positions",)
        e = mix_expected(pts, pool)
        if outs[0] != e:
            return ("child is not 'per common position the node (interior) or whole subtree (border) of the drawn parent'", flat(e))

    def named_uniform_crossoverGP(self, case, pts, outs, uspec, ml):
        return self._uniform(case, pts, outs, self._draws(case, "I"))

    def _weighted(self, case, pts, outs, w):
        cs = np.cumsum(np.array(w, dtype=np.float64))
        pool = []
        for u in self._draws(case, "U"):
            roll = cs[-1] * u
            pool.append(next((j for j, x in enumerate(cs) if roll <= x), len(cs) - 1))
        return self._uniform(case, pts, outs, pool)

    def named_uniform_proportional_crossover_GP(self, case, pts, outs, uspec, ml):
        return self._weighted(case, pts, outs, case["fitness"])

    def named_uniform_rank_crossover_GP(self, case, pts, outs, uspec, ml):
        return self._weighted(case, pts, outs, case["rank"])

    def named_uniform_tournament_crossover_GP(self, case, pts, outs, uspec, ml):
        fit, k = case["fitness"], len(pts)
        idx = self._draws(case, "I")
        pool, cur = [], []
        for v in idx:
            if v in cur:
                continue
            cur.append(v)
            if len(cur) == 2:
                pool.append(cur[0] if fit[cur[0]] >= fit[cur[1]] else cur[1])
                cur = []
        return self._uniform(case, pts, outs, pool)

    def named_point_mutation(self, case, pts, outs, uspec, ml):
        a, b = flat(pts[0]), flat(outs[0])
        diff = [i for i in range(len(a)) if a[i] != b[i]] if len(a) == len(b) else None
        if diff is None or len(diff) > 1:
            return ("more than one symbol changed (or the size changed)",)
        for i in diff:
            if a[i][1] != b[i][1] or b[i] not in uni_syms(uspec):
                return ("the replaced symbol does not have the same arity / is not from the universal set",)

    def named_growing_mutation(self, case, pts, outs, uspec, ml):
        t, c = pts[0], outs[0]
        us = uni_syms(uspec)
        for i in range(size(t)):
            if size(c) - size(t) + size(sub_at(t, i)) < 1:
                continue
            try:
                g = sub_at(c, i)
            except IndexError:
                continue
            if replace_at(t, i, g) == c and depth(g) <= depth(sub_at(t, i)) and set(flat(g)) <= us:
                return None
        if c == t:
            return None
        return ("child is not the parent with one subtree replaced by a generated tree no deeper than the old one",)

    def named_swap_mutation(self, case, pts, outs, uspec, ml):
        t, c = pts[0], outs[0]
        u = self._draws(case, "U")
        if not u or not (u[0] < case["proba"]):
            return None if c == t else ("tree changed although the coin said no mutation",)
        idx = [i for i, s in enumerate(flat(t)) if s[1] > 1]
        if not idx:
            return None if c == t else ("tree without a node of arity > 1 changed",)
        i = idx[self._draws(case, "I")[0]]
        nd = sub_at(t, i)
        n = len(nd[1])
        arr = list(range(n))
        for m, ii in enumerate(range(n - 1, 0, -1)):
            j = int(math.floor(u[1 + m] * ii))
            arr[ii], arr[j] = arr[j], arr[ii]
        kids = [None] * n
        for k in range(n):
            kids[arr[k]] = nd[1][k]          # argument k moves to slot new_arg_id[k]
        # one cycle of length n (Sattolo)
        seen, x = 0, 0
        while True:
            x = arr[x]
            seen += 1
            if x == 0:
                break
        if seen != n:
            return ("the argument permutation is not a single cycle",)
        e = replace_at(t, i, (nd[0], kids))
        if c != e:
            return ("child is not the parent with the arguments of one node permuted (stale splice positions)", flat(e))

    def named_shrink_mutation(self, case, pts, outs, uspec, ml):
        t, c = pts[0], outs[0]
        if size(t) <= 2:
            return None if (c == t and not case["draws"]) else ("a tree of size <= 2 must be returned unchanged without drawing",)
        if c == t:
            return None
        for i in range(size(t)):
            nd = sub_at(t, i)
            if any(replace_at(t, i, k) == c for k in nd[1]):
                return None
        return ("child is not the parent with one function node replaced by one of its arguments",)

    def _init(self, case, outs, uspec, ml, kinds):
        funcs = {(FB * a + k, a) for a, k in uspec[0]}
        for c in outs:
            lv = leaves_levels(c)
            full = all(x == ml for x in lv)
            grow = ml == 0 or c[0] in funcs
            if not (("full" in kinds and full) or ("grow" in kinds and grow)):
                return (f"initialiser {kinds}: leaves at levels {sorted(set(lv))}, max_level {ml}",)

    def named_full_growing_method(self, case, pts, outs, uspec, ml):
        return self._init(case, outs, uspec, ml, ("full",))

    def named_growing_method(self, case, pts, outs, uspec, ml):
        return self._init(case, outs, uspec, ml, ("grow",))

    def named_random_tree(self, case, pts, outs, uspec, ml):
        return self._init(case, outs, uspec, ml, ("full", "grow"))

    def named_half_and_half(self, case, pts, outs, uspec, ml):
        if len(outs) != case["pop_size"]:
            return ("wrong population size",)

    # ------------------------------------------------------------------ running the implementation
    def mirror_script(self, op, ps, fit, rk, ml, pop, proba, uspec, script, trees=None, uni=None):
        """one scripted mirror run (inside MR.patched_library()); returns (outs|None, err, leftover);
        raises MR.NeedDraw when the script is too short"""
        L_ = lib()
        trees = trees if trees is not None else [L_.tree(p[0]) for p in ps]
        uni = uni if uni is not None else L_.uniset(uspec)
        MR.TAPE.start_script(script)
        try:
            outs = L_.call(op, trees, fit, rk, ml, pop, proba, uni)
        except MR.NeedDraw:
            raise
        except (IndexError, ValueError, ZeroDivisionError, AssertionError) as e:
            return None, f"{type(e).__name__}: {e}", MR.TAPE.leftover()
        return outs, None, MR.TAPE.leftover()

    def enumerate(self, family, op, ps, fit, rk, ml, pop, proba, uspec, uplan, xvals=(0.25, 0.75), max_depth=14, limit=4000):
        """depth-first over all outcomes of the draws; uplan(script) -> candidate values of the next DU"""
        L_ = lib()
        rep = self.rep
        trees = [L_.tree(p[0]) for p in ps]
        snap = [L_.enc(t) for t in trees]
        uni = L_.uniset(uspec)
        stack, n = [[]], 0
        while stack:
            script = stack.pop()
            try:
                outs, err, left = self.mirror_script(op, ps, fit, rk, ml, pop, proba, uspec, script, trees, uni)
            except MR.NeedDraw as e:
                if len(script) >= max_depth:
                    rep.hist("enum_truncated", op)
                    continue
                if e.kind == "U":
                    ext = [("U", u) for u in uplan(script)]
                elif e.kind == "I":
                    ext = [("I", e.param, v) for v in range(e.param)]
                else:
                    ext = [("X", x) for x in xvals]
                for d in reversed(ext):
                    stack.append(script + [d])
                continue
            case = self.case(family, op, [tuple(map(tuple, s)) if False else s for s in snap], fit, rk, ml, pop, proba, uspec, script, outs, err)
            if left:
                rep.problem(family, f"{op}: the code consumed fewer draws than scripted", case, f"{op}:draws", False)
            now = [L_.enc(t) for t in trees]
            if now != snap:
                rep.problem(family, f"{op}: a parent was modified in place", case, f"{op}:parents-modified", True, now, snap,
                            "C08_parents_unmodified")
                trees = [L_.tree(p[0]) for p in ps]
            n += 1
            if n >= limit:
                rep.hist("enum_limit", op)
                return


# =========================================================================== run
def run(ctx, rep):
    MR.build()
    L_ = lib()
    ck = Checker(ctx, rep)
    rng = ctx.rng
    N = ctx.pick(5, 7)
    all_shapes = [s for n in range(1, N + 1) for s in shapes(n)]
    small = [s for s in all_shapes if len(s) <= ctx.pick(4, 5)]
    big_funcs = [(a, k) for a in (1, 2, 3, 4) for k in range(16)]
    U_BIG = (big_funcs, list(range(16)) + ["E"])
    U_SMALL = ([(1, 0), (2, 0), (2, 1), (3, 0)], [0, 1, "E"])
    U_TINY = ([(2, 0), (1, 0)], [0, "E"])
    coin = [0.25, 0.75]
    rep.hist("shapes", f"<= {N} nodes: {len(all_shapes)}")

    only = os.environ.get("C08_ONLY", "")
    tm = C.Timer()
    with MR.patched_library():
      # ------------------------------------------------------------ corpus: witnesses of the repaired defect, first on every run
      for ent in json.load(open(os.path.join(C.VERIF, "corpus", "C08.json"))):
          cs = ent["case"]
          ps = [([tuple(s) for s in p[0]], list(p[1])) for p in cs["parents"]]
          uspec = ([tuple(f) for f in cs["uniset"][0]], list(cs["uniset"][1]))
          script = [tuple(d) for d in cs["draws"]]
          outs, err, left = ck.mirror_script(cs["op"], ps, cs["fitness"], cs["rank"], cs["max_level"], cs["pop_size"], cs["proba"], uspec, script)
          ck.case("corpus", cs["op"], ps, cs["fitness"], cs["rank"], cs["max_level"], cs["pop_size"], cs["proba"], uspec, script, outs, err,
                  extra=dict(regression=ent["what"]))
      if not only or "enum" in only:
        # ------------------------------------------------------------ crossovers on two labelled parents
        pairs = [(a, b) for a in all_shapes for b in all_shapes]
        if ctx.quick:
            pairs = [(a, b) for a, b in pairs if len(a) + len(b) <= 8] + rng.sample([(a, b) for a, b in pairs if len(a) + len(b) > 8], 60)
        else:
            pairs = [(a, b) for a, b in pairs if len(a) + len(b) <= 9] + rng.sample([(a, b) for a, b in pairs if len(a) + len(b) > 9], 500)
        for sa, sb in pairs:
            pa, pb = label(sa, 0), label(sb, 8)
            ps = [(pa, list(sa)), (pb, list(sb))]
            la, lb = len(sa), len(sb)
            tight = max(depth(parse(pa)), depth(parse(pb)))
            for ml in sorted({tight} | ({16} if rng.random() < ctx.pick(0.15, 0.3) else set())):
                ck.enumerate("enum", "standard_crossover", ps, [1.0, 2.0], [1.0, 2.0], ml, 0, 0.0, U_BIG,
                             lambda sc: idx_u(la) if len(sc) == 0 else idx_u(lb) if len(sc) == 1 else coin)
            ncom = len(common_rec([parse(pa), parse(pb)]))
            ck.enumerate("enum", "one_point_crossoverGP", ps, [1.0, 2.0], [1.0, 2.0], 16, 0, 0.0, U_BIG,
                         lambda sc: idx_u(ncom) if len(sc) == 0 else coin)
            ck.enumerate("enum", "uniform_crossoverGP", ps, [1.0, 2.0], [1.0, 2.0], 16, 0, 0.0, U_BIG, lambda sc: coin)
            if ncom <= 3:
                for w in ([1.0, 3.0], [0.0, 2.0], [2.0, 2.0]):
                    cs = np.cumsum(w)
                    mids = [float(((cs[j - 1] if j else 0.0) + cs[j]) / 2 / cs[-1]) for j in range(2) if w[j] > 0]
                    ck.enumerate("enum", "uniform_proportional_crossover_GP", ps, w, [1.0, 2.0], 16, 0, 0.0, U_BIG, lambda sc: mids)
                    ck.enumerate("enum", "uniform_rank_crossover_GP", ps, [1.0, 2.0], w, 16, 0, 0.0, U_BIG, lambda sc: mids)
            if ncom <= 2:
                for f in ([1.0, 2.0], [2.0, 2.0]) + (() if ctx.quick else ([3.0, 0.0],)):
                    ck.enumerate("enum", "uniform_tournament_crossover_GP", ps, f, [1.0, 1.0], 16, 0, 0.0, U_BIG, lambda sc: coin,
                                 max_depth=2 * ncom + 1)
        ps1 = [(label(all_shapes[-1], 0), list(all_shapes[-1]))]
        ck.enumerate("enum", "empty_crossoverGP", ps1 + ps1, [1.0, 1.0], [1.0, 1.0], 16, 0, 0.0, U_BIG, lambda sc: coin)
        # ------------------------------------------------------------ uniform family with 1 and 3 parents (k-tree walk)
        triples = [tuple(rng.choice(small) for _ in range(k)) for k in (1, 3, 3, 3) for _ in range(ctx.pick(6, 60))]
        for tp in triples:
            ps = [(label(s, 8 * j), list(s)) for j, s in enumerate(tp)]
            k = len(tp)
            ck.enumerate("enum", "uniform_crossoverGP", ps, [1.0] * k, [1.0] * k, 16, 0, 0.0, U_BIG, lambda sc: coin, limit=300)
            w = [float(j % 2 + (j == 0)) for j in range(k)]
            cs = np.cumsum(w)
            mids = [float(((cs[j - 1] if j else 0.0) + cs[j]) / 2 / cs[-1]) for j in range(k) if w[j] > 0]
            ck.enumerate("enum", "uniform_rank_crossover_GP", ps, [1.0] * k, w, 16, 0, 0.0, U_BIG, lambda sc: mids, limit=100)
        # ------------------------------------------------------------ mutations on every labelled tree
        NM = ctx.pick(6, 7)
        for s in [s for n in range(1, NM + 1) for s in shapes(n)]:
            n = len(s)
            # swap / shrink: unique labels (the permutation is observable)
            ps = [(label(s, 0), list(s))]
            idx2 = [i for i, a in enumerate(s) if a > 1]

            def swap_plan(sc, s=s, idx2=idx2):
                nu = sum(1 for d in sc if d[0] == "U")
                if nu == 0:
                    return coin
                k = [d for d in sc if d[0] == "I"][0][2]
                return idx_u(s[idx2[k]] - nu)
            ck.enumerate("enum", "swap_mutation", ps, [], [], 16, 0, 0.5, U_BIG, swap_plan)
            ck.enumerate("enum", "shrink_mutation", ps, [], [], 16, 0, 0.5, U_BIG, lambda sc: coin)
            # point: labels folded into the small universal set
            ps = [(label(s, 0, 2) if all(a != 1 and a != 3 for a in s) else [((FB * a if a else 0) + (0 if a in (1, 3) else k % 2), a) for k, a in enumerate(s)], list(s))]

            def point_plan(sc, n=n):
                nu = sum(1 for d in sc if d[0] == "U")
                return coin if nu == 0 else idx_u(n) if nu == 1 else idx_u(EPH_N)
            ck.enumerate("enum", "point_mutation", ps, [], [], 16, 0, 0.5, U_SMALL, point_plan)
            if n <= ctx.pick(4, 5):
                ck.enumerate("enum", "growing_mutation", ps, [], [], 16, 0, 0.5, U_TINY, point_plan, max_depth=ctx.pick(9, 11),
                             limit=ctx.pick(150, 600))
        # ------------------------------------------------------------ initialisers: every outcome for small depth
        for ml in range(0, ctx.pick(3, 4)):
            for op in ("full_growing_method", "growing_method", "random_tree"):
                ck.enumerate("enum", op, [], [], [], ml, 0, 0.0, U_TINY, lambda sc: idx_u(EPH_N), max_depth=ctx.pick(12, 16),
                             limit=ctx.pick(300, 2000))
        for ml in (2, 3):
            ck.enumerate("enum", "half_and_half", [], [], [], ml, 2, 0.0, U_TINY,
                         lambda sc: [0.0, 0.5, 1 - 2.0 ** -53] if not sc else idx_u(EPH_N), max_depth=ctx.pick(10, 13), limit=ctx.pick(200, 1500))

    C.log(f"[C08] enumerated {tm.s()}s cases={len(ck.cases)}")
    if not only or "gen" in only:
        generated(ctx, rep, ck)
    C.log(f"[C08] generated {tm.s()}s cases={len(ck.cases_big)}")
    if not only or "harvest" in only:
        harvest(ctx, rep, ck)
    C.log(f"[C08] harvested {tm.s()}s cases={len(ck.cases_big)}")

    import concurrent.futures as cf
    fcs = (ck.cases, ck.cases_big, ck.crk)
    with cf.ThreadPoolExecutor(max_workers=3) as ex:       # the three families are evaluated side by side
        results = list(ex.map(lambda fc: fc.run(), fcs))
    for fc, (bad, errors) in zip(fcs, results):
        rep.hist("coq_cases", fc.name + ":" + str(len(fc)))
        for e in errors:
            rep.problem(fc.name, "model evaluation failed: %s" % (e,), {}, "model-eval", False)
        for i in bad[:20]:
            what = ("model and implementation disagree" if fc is not ck.crk else
                    "get_common_region (k-tree walk) differs from the recursive common region: the hypothesis of C08_uniform_k_closed_partial fails on these parents")
            rep.problem(fc.name, what, fc.meta[i], fc.name + ":model-vs-impl", False, None,
                        fc.explain(i, "let '(code, ps, (f, r), (ml, pop, proba), U, ds, out) := c in run_op code ps f r ml pop proba U ds")[:1500]
                        if fc is not ck.crk else None)
    C.log(f"[C08] model evaluated {tm.s()}s")
    rep.exhaustive = True
    rep.exhaustive_note = (f"all shapes <= {N} nodes (arities 0..3), every node labelled; two-parent crossovers on all pairs with "
                           f"<= {ctx.pick(8, 9)} nodes in total (+ a sample of the larger pairs) x all index draws; mutations on every shape <= {ctx.pick(6, 7)} nodes "
                           f"x all draws; initialisers: all outcomes for max_level <= {ctx.pick(2, 3)} up to the stated script length")


# =========================================================================== generated / seeded
def rand_uniset(rng, arities):
    funcs = [(a, k) for a in arities for k in range(rng.randint(1, 3))]
    rng.shuffle(funcs)
    terms = list(range(rng.randint(1, 4))) + (["E"] if rng.random() < 0.7 else [])
    rng.shuffle(terms)
    return (funcs, terms)


def rand_tree(rng, uspec, max_depth):
    funcs, terms = uspec
    ars = sorted({a for a, _ in funcs})
    sh = rand_shape(rng, max_depth, ars)
    syms = []
    for a in sh:
        if a:
            k = rng.choice([k for aa, k in funcs if aa == a])
            syms.append((FB * a + k, a))
        else:
            t = rng.choice(terms)
            syms.append((EPH_BASE + rng.randrange(EPH_N), 0) if t == "E" else (t, 0))
    return syms


def generated(ctx, rep, ck):
    """random trees to depth 6, tuples of 2..7 parents, fitness / rank with ties and zeros;
    seeded: every call first as log-mode mirror (one library patch for the whole family), then — only when
    the mirror returned normally — the compiled library under the same seed"""
    rng = ctx.rng
    L_ = lib()
    plan = []
    for it in range(ctx.pick(60, 600)):
        arities = rng.choice([(1, 2), (1, 2, 3), (2, 3), (1, 2, 3, 4), (3,), (2, 4)])
        uspec = rand_uniset(rng, arities)
        uni = L_.uniset(uspec)
        k = rng.randint(2, 7)
        md = rng.randint(1, 6)
        ps = [rand_tree(rng, uspec, md) for _ in range(k)]
        ps = [(p, [s[1] for s in p]) for p in ps]
        fit = [float(rng.choice([0, 0, 1, 2, 2, 5])) for _ in range(k)]
        if sum(fit) == 0:
            fit[rng.randrange(k)] = 1.0
        rk = [float(rng.choice([1, 1, 2, 3, 0])) for _ in range(k)]
        if sum(rk) == 0:
            rk[rng.randrange(k)] = 2.0
        pd = max(depth(parse(p[0])) for p in ps)
        ml = rng.choice([pd, pd, pd + 1, 16])
        ops = [(op, ps) for op in CROSSOVERS] + [(op, ps[:1]) for op in MUTATIONS]
        ops += [(op, []) for op in ("full_growing_method", "growing_method", "random_tree", "half_and_half")]
        for op, pp in ops:
            plan.append(dict(op=op, pp=pp, uspec=uspec, uni=uni, fit=fit, rk=rk, seed=rng.randrange(1 << 30),
                             proba=rng.choice([0.0, 0.5, 1.0, 1.0, 1.5]),
                             ml=rng.randint(2, 4) if op == "half_and_half" else (rng.randint(0, 4) if not pp else ml),
                             pop=3 if op == "half_and_half" else 0))
    # ---- mirror (log mode)
    with MR.patched_library():
        for c in plan:
            trees = [L_.tree(p[0]) for p in c["pp"]]
            snap = [L_.enc(t) for t in trees]
            MR.seed(c["seed"])
            MR.TAPE.start_log()
            try:
                om, err = L_.call(c["op"], trees, c["fit"], c["rk"], c["ml"], c["pop"], c["proba"], c["uni"]), None
            except (IndexError, ValueError, ZeroDivisionError, AssertionError) as e:
                om, err = None, f"{type(e).__name__}: {e}"
            c.update(om=om, err=err, log=list(MR.TAPE.log), snap=snap, same=[L_.enc(t) for t in trees] == snap)
    # ---- predicate, model, compiled
    first = None
    for c in plan:
        op, pp = c["op"], c["pp"]
        try:
            script = to_script(c["log"])
        except ValueError:
            continue
        rep.traces += 1
        cx = bool(pp) and op in CROSSOVERS
        case = ck.case("generated", op, c["snap"], c["fit"] if cx else [], c["rk"] if cx else [], c["ml"], c["pop"], c["proba"],
                       c["uspec"], script, c["om"], c["err"], extra=dict(seed=c["seed"]))
        first = first or case
        rep.hist("parents", len(pp))
        if not c["same"]:
            rep.problem("generated", f"{op}: a parent was modified in place", case, f"{op}:parents-modified", True, None, c["snap"],
                        "C08_parents_unmodified")
            continue
        if c["om"] is None:
            continue            # the mirror raised: the compiled helper would read out of bounds — not executed
        MR.seed(c["seed"])
        oc = L_.call(op, [L_.tree(p[0]) for p in pp], c["fit"], c["rk"], c["ml"], c["pop"], c["proba"], c["uni"])
        if [L_.enc(o) for o in oc] != [L_.enc(o) for o in c["om"]]:
            rep.problem("seeded", f"compiled {op} and log-mode mirror disagree under the same seed", case,
                        "seeded:compiled-vs-mirror", False, [L_.enc(o) for o in oc], [L_.enc(o) for o in c["om"]])
    if first:
        rep.sample(first)


# =========================================================================== harvested
def harvest(ctx, rep, ck):
    from thefittest.optimizers import GeneticProgramming, SelfCGP, PDPGP
    rng = ctx.rng
    L_ = lib()
    cx_names = ["gp_empty", "gp_standard", "gp_one_point", "gp_uniform_2", "gp_uniform_7", "gp_uniform_k", "gp_uniform_prop_2",
                "gp_uniform_prop_7", "gp_uniform_prop_k", "gp_uniform_rank_2", "gp_uniform_rank_7", "gp_uniform_rank_k",
                "gp_uniform_tour_3", "gp_uniform_tour_7", "gp_uniform_tour_k"]
    mu_names = [f"gp_{r}_{m}" for m in ("point", "grow", "swap", "shrink") for r in ("weak", "average", "strong", "custom_rate")]
    sel_names = ["proportional", "rank", "tournament_k", "tournament_3"]
    configs, need = [], set(cx_names + mu_names)
    combos = [(c, m) for c in cx_names for m in mu_names]
    rng.shuffle(combos)
    for c, m in combos:
        if {c, m} & need:
            configs.append(("GP", dict(selection=rng.choice(sel_names), crossover=c, mutation=m)))
            need -= {c, m}
    for c, m in combos[: ctx.pick(2, 40)]:
        configs.append(("GP", dict(selection=rng.choice(sel_names), crossover=c, mutation=m)))
    for _ in range(ctx.pick(1, 5)):
        configs.append(("SelfCGP", dict(crossovers=tuple(rng.sample(cx_names, 5)), mutations=tuple(rng.sample(mu_names, 6)))))
        configs.append(("PDPGP", dict(crossovers=tuple(rng.sample(cx_names, 5)), mutations=tuple(rng.sample(mu_names, 6)))))
    for kind, kw in configs:
        seed = rng.randrange(1 << 30)
        arities = rng.choice([(1, 2), (1, 2, 3), (2, 3), (1, 2, 3, 4)])
        uspec = rand_uniset(rng, arities)
        uni = L_.uniset(uspec)
        max_level = rng.choice([3, 4, 5])
        init_level = rng.choice([2, 3])
        pop = rng.randint(8, 11)
        parents = rng.randint(2, 4)
        rate = rng.choice([0.0, 0.25, 1.0])
        evaluated, records = [], []

        def fitness(trees, evaluated=evaluated):
            for t in trees:
                evaluated.append(L_.enc(t))
            return np.array([float((len(t) * 3 + int(t._n_args.sum())) % 7) for t in trees], dtype=np.float64)
        cls = dict(GP=GeneticProgramming, SelfCGP=SelfCGP, PDPGP=PDPGP)[kind]
        with L.log_mode():
            opt = cls(fitness, uni, iters=ctx.pick(4, 6), pop_size=pop, tour_size=2, mutation_rate=rate, parents_num=parents,
                      max_level=max_level, init_level=init_level, random_state=seed, **kw)

            def wrap_cx(f):
                def w(individs, fit, rk, ml):
                    start = len(MR.TAPE.log)
                    snap = [L_.enc(t) for t in individs]
                    try:
                        out, err = f(individs, fit, rk, ml), None
                    except IndexError as e:
                        out, err = None, f"IndexError: {e}"
                    records.append(dict(op=f.__name__, ps=snap, fit=[float(x) for x in fit], rk=[float(x) for x in rk], ml=int(ml), proba=0.0,
                                        out=out, err=err, log=list(MR.TAPE.log[start:]), same=[L_.enc(t) for t in individs] == snap))
                    if out is None:
                        raise IndexError(err)
                    return out
                w.__name__ = f.__name__
                return w

            def wrap_mu(f):
                def w(tree, us, proba, ml):
                    start = len(MR.TAPE.log)
                    snap = [L_.enc(tree)]
                    try:
                        out, err = f(tree, us, proba, ml), None
                    except IndexError as e:
                        out, err = None, f"IndexError: {e}"
                    records.append(dict(op=f.__name__, ps=snap, fit=[], rk=[], ml=int(ml), proba=float(proba), out=out, err=err,
                                        log=list(MR.TAPE.log[start:]), same=[L_.enc(tree)] == snap))
                    if out is None:
                        return tree.copy()
                    return out
                w.__name__ = f.__name__
                return w
            opt._crossover_pool = {k: (wrap_cx(f), q) for k, (f, q) in opt._crossover_pool.items()}
            opt._mutation_pool = {k: (wrap_mu(f), p, c) for k, (f, p, c) in opt._mutation_pool.items()}
            try:
                opt.fit()
            except IndexError:
                pass
        rep.traces += 1
        rep.hist("harvest_kind", kind)
        for name in (kw.get("crossover"), kw.get("mutation")):
            if name:
                rep.hist("pool_entry", name)
        allowed = uni_syms(uspec)
        for e in evaluated:
            rep.count("evaluated", None, nontrivial=False)
            t = parse(e[0], e[1])
            if t is None or not set(e[0]) <= allowed or depth(t) > max_level:
                rep.problem("evaluated", f"{kind}: an evaluated tree is malformed, uses a foreign symbol or is deeper than max_level={max_level}",
                            dict(kind=kind, kw=kw, seed=seed, uniset=uspec, tree=e, max_level=max_level, init_level=init_level),
                            "evaluated-tree", True, e, None, "C08_closed")
        wrong_ml = sorted({r["ml"] for r in records if r["ml"] != max_level})
        if wrong_ml:
            # the bound handed to the operators is not the configured one: search the same optimizer for a generation that holds a deeper tree
            found = None
            for s2 in range(6):
                ev2 = []

                def fit2(trees, ev2=ev2):
                    ev2.extend(L_.enc(t) for t in trees)
                    return np.array([float(len(t)) for t in trees], dtype=np.float64)      # rewards growth
                o2 = cls(fit2, uni, iters=15, pop_size=30, max_level=max_level, init_level=init_level, random_state=seed + s2)
                try:
                    o2.fit()
                except Exception:   # noqa: BLE001
                    pass
                deep = [e for e in ev2 if (parse(e[0], e[1]) is None or depth(parse(e[0], e[1])) > max_level)]
                if deep:
                    found = dict(seed=seed + s2, tree=deep[0], depth=None if parse(deep[0][0], deep[0][1]) is None else depth(parse(deep[0][0], deep[0][1])))
                    break
            rep.problem("evaluated", f"{kind}: the optimizer hands max_level={wrong_ml} to its crossover / mutation operators although max_level={max_level} "
                        "was configured" + (f"; with default pools, iters=15, pop_size=30, random_state={found['seed']} a tree of depth {found['depth']} is evaluated" if found else ""),
                        dict(kind=kind, kw=kw, seed=seed, uniset=uspec, max_level=max_level, init_level=init_level, deeper_tree=found),
                        "max-level-not-forwarded", found is not None, wrong_ml, max_level, "C08_closed")
        for r in records:
            try:
                script = to_script(r["log"])
            except ValueError as e:
                rep.problem("harvest", f"{kind}: operator {r['op']} drew random numbers of a kind the models of the GP operators do not use ({e})",
                            dict(optimizer=kind, seed=seed, op=r["op"]), "unknown-draw-kind", False)
                continue
            case = ck.case("harvest", r["op"], r["ps"], r["fit"], r["rk"], r["ml"], 0, r["proba"], uspec, script,
                           None if r["out"] is None else [r["out"]], r["err"], extra=dict(optimizer=kind, seed=seed))
            rep.hist("harvest_op", r["op"])
            if not r["same"]:
                rep.problem("harvest", f"{r['op']}: a parent was modified in place", case, f"{r['op']}:parents-modified", True, None, None,
                            "C08_parents_unmodified")
        if records:
            rep.sample({k: v for k, v in C.jsonable(ck.cases_big.meta[-1]).items()})


# =========================================================================== replay
def replay(ctx, rp):
    case = rp["first"]["case"]
    if "op" not in case:
        print("replay: not an operator case:", rp["first"]["what"][:300])
        return False
    MR.build()
    L_ = lib()
    ps = [([tuple(s) for s in p[0]], list(p[1])) for p in case["parents"]]
    uspec = ([tuple(f) for f in case["uniset"][0]], list(case["uniset"][1]))
    script = [tuple(d) for d in case["draws"]]

    class R:
        problems = []

        def problem(self, *a, **k):
            self.problems.append(a)

        def count(self, *a, **k):
            pass

        def hist(self, *a, **k):
            pass
    r = R()
    ck = Checker(ctx, r)
    with MR.patched_library():
        outs, err, left = ck.mirror_script(case["op"], ps, case["fitness"], case["rank"], case["max_level"], case["pop_size"],
                                           case["proba"], uspec, script)
    print("replay:", case["op"], "parents", [p[0] for p in ps], "draws", script)
    print("  implementation returned:", None if outs is None else [L_.enc(o)[0] for o in outs], err or "")
    ck.case("replay", case["op"], ps, case["fitness"], case["rank"], case["max_level"], case["pop_size"], case["proba"], uspec, script, outs, err)
    for p in r.problems:
        print("  property fails:", p[1])
    return not r.problems
