"""C18 — estimators predict with the model they fitted."""
from __future__ import annotations

import copy
import pickle

import numpy as np

import common as C
import estimators as E
import live as L
import translate_misc as TM

RULE = ("the six estimators fitted with tiny budgets for every weight / structure optimizer (harness-side stand-in for the "
        "removed BaseEstimator._validate_data), string and non-contiguous integer labels: label pipeline vs the Coq model, "
        "predict(X) vs an independent evaluation of the stored tree / net (bias column when offset), training error vs the "
        "best fitness in optimizer_stats_, probability rows, repeated / interleaved predict calls with the model pickled "
        "before and after, wrong feature count, n_iter / pop_size honoured, inputs and get_params() unchanged by fit, "
        "reserved optimizer arguments rejected. distinct = (estimator, optimizer, labels, seed).")
ASSUMPTIONS = ["scikit-learn's check_array / check_X_y / LabelEncoder / OneHotEncoder / train_test_split are trusted third-party behaviour",
               "floating-point outputs compared within 1e-9; metrics recomputed with the library's own metric functions (C19)"]
TRUSTED = ["model: coq/theories/Estimator.v; checkers C18Check.v; translator harness/translate_misc.py (reserved argument lists); "
           "stand-in harness/estimators.py for BaseEstimator._validate_data"]
THEORIES = ["Base", "RandomPrims", "RandomPrimsProofs", "Estimator", "EstimatorProofs", "C11Check", "C18Check", "GenMisc"]
IMPORTS = "From TF Require Import Base Estimator C11Check C18Check."

WEIGHT_OPTS = ["SHADE", "DifferentialEvolution", "jDE", "SHAGA", "GeneticAlgorithm", "SelfCGA"]
STRUCT_OPTS = ["GeneticProgramming", "SelfCGP", "PDPGP"]


def gen(ctx):
    TM.emit()


def state_of(m):
    d = {}
    for k, v in vars(m).items():
        if k in ("tree_",):
            d[k] = str(v)
        elif k == "net_":
            d[k] = (sorted(map(int, v._inputs)), [sorted(map(int, h)) for h in v._hidden_layers], sorted(map(int, v._outputs)),
                    np.asarray(v._connects).tolist(), np.asarray(v._weights).tolist(), {int(a): int(b) for a, b in v._activs.items()})
        elif isinstance(v, np.ndarray):
            d[k] = v.tolist()
        elif isinstance(v, (int, float, str, bool, tuple, type(None))):
            d[k] = v
    return repr(d)


def run(ctx, rep):
    import thefittest.optimizers as O
    from thefittest.utils._metrics import categorical_crossentropy, root_mean_square_error
    E.install()
    f_cl = C.CoqCases(ctx.scratch, "classes", IMPORTS, "chk_classes", "list Z * list Z")
    f_pr = C.CoqCases(ctx.scratch, "predict", IMPORTS, "chk_predict", "list Z * list (list Q) * list Z")
    f_en = C.CoqCases(ctx.scratch, "encode", IMPORTS, "chk_encode", "list Z * list Z * list nat")
    label_sets = [["a", "b"], ["no", "yes"], [3, 11], [-5, 40], ["x", "y", "z"], [7, 3, 100]]
    specs = []
    gp_opts = STRUCT_OPTS if not ctx.quick else ["GeneticProgramming", "SelfCGP"]
    w_opts = WEIGHT_OPTS if not ctx.quick else ["SHADE", "SHAGA", "jDE"]
    for o in gp_opts:
        specs.append(("GeneticProgrammingClassifier", dict(optimizer=o, optimizer_args=dict(keep_history=True)), 2))
        specs.append(("GeneticProgrammingRegressor", dict(optimizer=o, optimizer_args=dict(keep_history=True)), 0))
    for o in w_opts:
        for hl in ((2,), ()) if not ctx.quick else ((2,),):
            specs.append(("MLPEAClassifier", dict(weights_optimizer=o, hidden_layers=hl, weights_optimizer_args=dict(keep_history=True), offset=ctx.rng.random() < 0.7), 3))
            specs.append(("MLPEARegressor", dict(weights_optimizer=o, hidden_layers=hl, weights_optimizer_args=dict(keep_history=True), offset=ctx.rng.random() < 0.7), 0))
    # the stored weights must be the BEST EVER individual, not the best of the last population: a non-elitist
    # generational weights optimizer that regularly loses its best individual
    for sel in ("proportional", "rank", "proportional"):
        specs.append(("MLPEARegressor", dict(weights_optimizer="GeneticAlgorithm", hidden_layers=(2,), offset=True,
                                             weights_optimizer_args=dict(keep_history=True, elitism=False, selection=sel, mutation="strong")), 0))
        specs.append(("MLPEAClassifier", dict(weights_optimizer="GeneticAlgorithm", hidden_layers=(), offset=True,
                                              weights_optimizer_args=dict(keep_history=True, elitism=False, selection=sel, mutation="strong")), 3))
    for o in (gp_opts[:1] if ctx.quick else gp_opts):
        for w in (w_opts[:1] if ctx.quick else w_opts[:3]):
            specs.append(("GeneticProgrammingNeuralNetClassifier", dict(optimizer=o, weights_optimizer=w, weights_optimizer_args=dict(iters=2, pop_size=6),
                                                                        optimizer_args=dict(keep_history=True)), 3))
            specs.append(("GeneticProgrammingNeuralNetRegressor", dict(optimizer=o, weights_optimizer=w, weights_optimizer_args=dict(iters=2, pop_size=6),
                                                                       optimizer_args=dict(keep_history=True)), 0))
    n_wide = {}
    earlier = []
    for name, kw, ncls in specs:
        seed = ctx.rng.randrange(1 << 20)
        n_iter, pop = ctx.rng.randint(2, 3), ctx.rng.randint(7, 9)
        if kw.get("weights_optimizer_args", {}).get("elitism") is False:
            n_iter = 6
        if name.startswith("GeneticProgramming") and kw.get("optimizer") in ("SelfCGP", "PDPGP"):
            pop = max(pop, 8)
        d = ctx.rng.randint(2, 4)
        if name in ("GeneticProgrammingRegressor", "GeneticProgrammingClassifier") and n_wide.get(name, 0) % 2 == 0:
            d = ctx.rng.choice([11, 12, 13])      # more than ten features: x10, x11, ... (names that sort before x2)
        n_wide[name] = n_wide.get(name, 0) + 1
        labels = None
        if ncls:
            k_lab = 2 if ncls == 2 else ctx.rng.choice([2, 3])      # drawn once (it used to be re-drawn per candidate)
            cands = [ls for ls in label_sets if len(ls) == k_lab]
            labels = ctx.rng.choice(cands)
        X, y = E.tiny_problem(ctx.rng, n=ctx.rng.randint(18, 30), d=d, labels=labels)
        y = np.array(y)
        where = dict(estimator=name, seed=seed, n_iter=n_iter, pop_size=pop, labels=labels, args={k: str(v) for k, v in kw.items()})
        m = E.make(name, n_iter=n_iter, pop_size=pop, random_state=seed, **kw)
        params_before = repr(sorted((k, str(v)) for k, v in m.get_params().items()))
        Xb, yb = X.copy(), y.copy()
        try:
            m.fit(X, y)
        except Exception as e:
            import traceback
            rep.problem("fit", f"{name}.fit raised {type(e).__name__}: {e}", where, "fit-raised", False, None, traceback.format_exc()[-1200:])
            continue
        rep.traces += 1
        rep.count("fit:" + name, (name, str(kw.get("optimizer")), str(kw.get("weights_optimizer")), seed))
        rep.hist("estimator", name), rep.hist("optimizer", str(kw.get("optimizer") or kw.get("weights_optimizer")))
        if not np.array_equal(X, Xb) or not np.array_equal(y, yb) or repr(sorted((k, str(v)) for k, v in m.get_params().items())) != params_before:
            rep.problem("fit", "fit modified its inputs or its constructor parameters", where, "fit-modified-inputs", True)
        st0 = state_of(m)
        pred = np.asarray(m.predict(X))
        # ---- independent evaluation of the stored model
        if hasattr(m, "net_"):
            Xn = np.hstack([X, np.ones((len(X), 1))]) if m.offset else X
            out = m.net_.copy().forward(Xn)[0]
        else:
            tree = m.tree_.set_terminals(**{f"x{i}": X[:, i] for i in range(X.shape[1])})
            out = tree() * np.ones(len(X))
        if ncls:
            proba = np.asarray(m.predict_proba(X))
            if name == "GeneticProgrammingClassifier":
                s = 1 / (1 + np.exp(-np.clip(out, -500, 500)))
                exp_proba = np.vstack([1 - s, s]).T
            else:
                exp_proba = out
            if not np.allclose(proba, exp_proba, rtol=1e-9, atol=1e-12):
                rep.problem("predict", "predict_proba(X) is not the evaluation of the stored tree / network on X", where, "predict-not-eval", True,
                            proba[:3].tolist(), np.asarray(exp_proba)[:3].tolist(), "C18_predict_is_eval")
            if np.any(proba < 0) or not np.allclose(proba.sum(axis=1), 1.0, atol=1e-9):
                rep.problem("proba", "predict_proba rows are not non-negative rows summing to 1", where, "proba-rows", True, proba[:3].tolist(), None, "C18_proba_rows")
            # any X: unscaled features of very different magnitude in one batch
            Xbig = X * np.where(np.arange(len(X)) % 3 == 0, 2000.0, np.where(np.arange(len(X)) % 3 == 1, 1.0, -50.0)).reshape(-1, 1)
            pb = np.asarray(m.predict_proba(Xbig))
            if not np.all(np.isfinite(pb)) or np.any(pb < 0) or not np.allclose(pb.sum(axis=1), 1.0, atol=1e-9):
                rep.problem("proba", "predict_proba rows on unscaled features are not non-negative rows summing to 1", where, "proba-rows-unscaled", True,
                            pb[:4].tolist(), None, "C18_proba_rows")
            classes = list(m.classes_)
            exp_lab = [classes[int(j)] for j in np.argmax(proba, axis=1)]
            if list(pred) != exp_lab or any(p not in list(np.unique(y)) for p in pred):
                rep.problem("labels", "predict does not return the original class label of the arg-max column", where, "predict-label", True,
                            list(map(str, pred[:5])), list(map(str, exp_lab[:5])), "C18_label_roundtrip")
            # Coq: label pipeline (labels mapped to integers order-preservingly)
            uniq = sorted(set(y.tolist()))
            to_z = {v: i * 3 - 4 for i, v in enumerate(uniq)}
            ysz = [to_z[v] for v in y.tolist()]
            f_cl.add(f"({C.clist(ysz, C.cz)}, {C.clist([to_z[v] for v in classes], C.cz)})", dict(where, y=list(map(str, y[:8]))))
            enc = m._label_encoder.transform(y)
            f_en.add(f"({C.clist([to_z[v] for v in classes], C.cz)}, {C.clist(ysz, C.cz)}, {C.clist([int(v) for v in enc], C.cnat)})", where)
            rows = C.clist([C.clist([float(v) for v in r], C.cq) for r in proba[:10]])
            f_pr.add(f"({C.clist([to_z[v] for v in classes], C.cz)}, {rows}, {C.clist([to_z[v] for v in pred[:10].tolist()], C.cz)})", where)
            train_err = float(categorical_crossentropy(np.eye(len(classes))[enc].astype(np.float64), proba.astype(np.float64)))
        else:
            exp = out[:, 0] if np.ndim(out) == 2 else out
            if not np.allclose(pred, exp, rtol=1e-9, atol=1e-12):
                rep.problem("predict", "predict(X) is not the evaluation of the stored tree / network on X", where, "predict-not-eval", True,
                            pred[:3].tolist(), np.asarray(exp)[:3].tolist(), "C18_predict_is_eval")
            train_err = float(root_mean_square_error(y.astype(np.float64), pred.astype(np.float64)))
        # ---- training error = reported best fitness (GP and MLPEA estimators)
        stats = getattr(m, "optimizer_stats_", None)
        if stats is not None and "max_fitness" in stats and not name.startswith("GeneticProgrammingNeuralNet"):
            best = -max(float(v) for v in stats["max_fitness"])
            rep.count("train-error", (name, seed))
            if not np.isclose(train_err, best, rtol=1e-9, atol=1e-12):
                rep.problem("train", "the error of the training-set predictions differs from the reported best training fitness", where, "train-error", True,
                            train_err, best, "C18_train_error")
            if len(stats["max_fitness"]) != n_iter or any(len(f) != pop for f in stats["fitness"]):
                rep.problem("budget", "fit did not honour n_iter / pop_size", dict(where, generations=len(stats["max_fitness"])), "budget", True,
                            len(stats["max_fitness"]), n_iter, "C18")
        # ---- the same targets with OTHER features (feature ablation / rescaling / permuted columns), fitted right afterwards: the reported
        #      best training fitness is still the error of that model's own training-set predictions
        if name in ("GeneticProgrammingRegressor", "GeneticProgrammingClassifier") and stats is not None:
            X2 = X[:, ::-1] * 1.5 + 0.25
            m2 = E.make(name, n_iter=n_iter, pop_size=pop, random_state=seed, **kw)
            m2.fit(X2.copy(), y.copy())
            rep.traces += 1
            st2 = m2.optimizer_stats_
            best2 = -max(float(v) for v in st2["max_fitness"])
            if ncls:
                enc2 = m2._label_encoder.transform(y)
                err2 = float(categorical_crossentropy(np.eye(len(m2.classes_))[enc2].astype(np.float64), np.asarray(m2.predict_proba(X2)).astype(np.float64)))
            else:
                err2 = float(root_mean_square_error(y.astype(np.float64), np.asarray(m2.predict(X2)).astype(np.float64)))
            rep.count("train-error-second-fit", (name, seed))
            if not np.isclose(err2, best2, rtol=1e-9, atol=1e-12):
                rep.problem("train", "second fit with the same targets and other features: the error of the training-set predictions differs from the reported best training fitness",
                            dict(where, second_fit="X[:, ::-1] * 1.5 + 0.25, same y", tree=str(m2.tree_)), "train-error", True, err2, best2, "C18_train_error")
        # ---- a fitted model is its own: fitting ANOTHER estimator (same class or not, other label set) must not change what the
        #      earlier ones predict or which classes they report
        for (m_old, X_old, pred_old, classes_old, where_old) in earlier[-4:]:
            rep.count("earlier-model-after-later-fit", (where_old["estimator"], where_old["seed"], name, seed))
            try:
                now = np.asarray(m_old.predict(X_old))
                same_ = np.array_equal(now, pred_old) if now.dtype.kind not in "fc" else np.allclose(now, pred_old, rtol=1e-9, atol=1e-12)
                cls_now = None if classes_old is None else list(map(str, m_old.classes_))
            except Exception as e:   # noqa: BLE001
                same_, cls_now = False, repr(e)
            if not same_ or cls_now != classes_old:
                rep.problem("pure", f"after fitting another estimator ({name}, labels {labels}) an earlier fitted {where_old['estimator']} (labels {where_old['labels']}) predicts differently / reports other classes",
                            dict(where_old, later=where), "predict-impure", True, cls_now, classes_old, "C18_predict_pure")
        earlier.append((m, X.copy(), pred.copy(), None if not ncls else list(map(str, m.classes_)), where))
        # ---- predict is pure
        sub = X[: len(X) // 2]
        p1 = np.asarray(m.predict(sub))
        _ = m.predict(X[::-1].copy())
        p2 = np.asarray(m.predict(sub))
        again = np.asarray(m.predict(X))
        if not np.array_equal(p1, p2) or not np.array_equal(again, pred) or state_of(m) != st0:
            rep.problem("pure", "predict changed the model or depends on earlier predict calls", where, "predict-impure", True, None, None, "C18_predict_pure")
        same_rows = np.array_equal(p1, pred[: len(sub)]) if p1.dtype.kind not in "fc" else np.allclose(p1, pred[: len(sub)], rtol=1e-9, atol=1e-12)
        if not same_rows:      # (BLAS kernels differ at the ulp level with the batch shape: floats compared within 1e-9)
            rep.problem("pure", "predict on a sub-batch differs from the corresponding rows of predict on the full batch", where, "predict-batch", True)
        try:
            m.predict(np.hstack([X, X[:, :1]]))
            rep.problem("features", "predict accepted a wrong number of features", where, "feature-count", True)
        except ValueError:
            pass
        # ---- fit honours random_state: same seed (int, numpy integer, RandomState in the same state, a clone, the same object
        #      fitted again) => same model and same predictions
        def model_of(est):
            net = getattr(est, "net_", None)
            net_d = "" if net is None else repr((sorted(map(int, net._inputs)), [sorted(map(int, h)) for h in net._hidden_layers], sorted(map(int, net._outputs)),
                                                 np.asarray(net._connects).tolist(), np.asarray(net._weights).tolist(), sorted((int(a), int(b)) for a, b in net._activs.items())))
            return (str(getattr(est, "tree_", "")), net_d, np.asarray(est.predict(X)).tolist())
        ref_model = model_of(m)
        from sklearn.base import clone as sk_clone
        variants = [("a new estimator with the same integer seed", lambda: E.make(name, n_iter=n_iter, pop_size=pop, random_state=seed, **kw)),
                    ("random_state=RandomState(seed)", lambda: E.make(name, n_iter=n_iter, pop_size=pop, random_state=np.random.RandomState(seed), **kw)),
                    ("the same estimator fitted a second time", lambda: m),
                    ("sklearn.base.clone of the fitted estimator", lambda: sk_clone(m))]
        for label, mk in (variants if not ctx.quick else [variants[1], variants[ctx.rng.choice([0, 2, 3])]]):
            try:
                m2 = mk()
                np.random.seed(ctx.rng.randrange(1 << 30))        # unrelated generator state must not matter
                m2.fit(X.copy(), y.copy())
                got_model = model_of(m2)
            except Exception as e:   # noqa: BLE001
                rep.problem("seed", f"{label}: fit raised {type(e).__name__}: {e}", dict(where, variant=label), "refit-raised", True, None, repr(e), "C18")
                continue
            rep.traces += 1
            rep.count("same-seed", (name, seed, label))
            if got_model != ref_model:
                rep.problem("seed", f"same random_state, different fitted model or predictions ({label})", dict(where, variant=label), "seed-not-honoured", True,
                            got_model[0][:200], ref_model[0][:200], "C18")
        if len(rep.samples) < 3:
            rep.sample(dict(where, train_error=train_err, first_predictions=list(map(str, pred[:4]))))
    # ---- reserved optimizer arguments are rejected
    reserved = TM.scan_reserved()
    for mod, var, auto, incls in reserved:
        for key in auto + incls:
            for name in {"thefittest.base._gp": ["GeneticProgrammingRegressor"], "thefittest.base._mlp": ["MLPEARegressor"],
                         "thefittest.base._gpnn": ["GeneticProgrammingNeuralNetRegressor"]}[mod]:
                X, y = E.tiny_problem(ctx.rng, n=12, d=2)
                kw = {var: {key: None}}
                if name == "MLPEARegressor":
                    kw["hidden_layers"] = (1,)
                est = E.make(name, n_iter=2, pop_size=6, random_state=1, **kw)
                rep.count("reserved", (name, var, key))
                try:
                    est.fit(X, y)
                    rep.problem("reserved", f"{name} accepted the optimizer argument '{key}' in {var} although it defines it itself",
                                dict(estimator=name, dict=var, key=key), "reserved-accepted", True, None, None, "C18_reserved_args")
                except AssertionError:
                    pass
                except Exception as e:
                    rep.problem("reserved", f"{name} with reserved argument '{key}' raised {type(e).__name__} instead of rejecting it: {e}",
                                dict(estimator=name, dict=var, key=key), "reserved-other-error", False)
    for fc in (f_cl, f_pr, f_en):
        bad, errors = fc.run()
        rep.hist("coq_cases", fc.name + ":" + str(len(fc)))
        for e in errors:
            rep.problem(fc.name, "model evaluation failed: %s" % (e,), {}, "model-eval", False)
        for i in bad[:10]:
            rep.problem(fc.name, "label pipeline: model and implementation disagree", fc.meta[i], fc.name + ":model-vs-impl", False)


def replay(ctx, rp):
    return None      # generic replay of harness/main.py (re-executes the check, looks for the recorded signature)
