"""C03 — evaluation budget and stopping rules are honoured exactly."""
from __future__ import annotations

import loop_traces as LT
from props import _loop

ESCALATE = True     # cheap thorough tier: run it whenever an anchor file differs from the pinned fingerprint
RULE = ("live runs of all ten optimizer classes over iters in {1,2,3,5,7} x optimal_value {none, reached at the first / a "
        "middle generation / never} x termination_error_value {0, 1/8, 1} x no_increase_num {None,0,1,2,50} x both signs; "
        "the objective wrapper counts the individuals it really receives; expected stop generation recomputed in Python "
        "from the per-generation best values; every trace replayed through the Coq loop model. distinct = configuration.")
THEORIES, TRUSTED, ASSUMPTIONS = _loop.THEORIES, _loop.TRUSTED, _loop.ASSUMPTIONS
gen = _loop.gen


def expected_generations(cfg, best_per_gen):
    sign = -1.0 if cfg["minimization"] else 1.0
    aim = None if cfg.get("optimal_value") is None else sign * cfg["optimal_value"] - cfg["err"]
    c = 0
    for i, b in enumerate(best_per_gen):
        if i > 0:
            c = 0 if b > best_per_gen[i - 1] else c + 1
        stop = (aim is not None and b >= aim) or (cfg["nin"] is not None and c == cfg["nin"])
        if stop or i + 1 == cfg["iters"]:
            return i + 1, stop
    return len(best_per_gen), False


def predicate(tr, rep):
    cfg, batches = tr["cfg"], tr["batches"]
    pop, iters = cfg["pop"], cfg["iters"]
    fin = tr["final"]
    where = dict(cfg=cfg, generations=len(batches))
    if any(len(b["ph"]) != pop for b in batches):
        rep.problem("batch", "a generation did not evaluate exactly pop_size individuals", where, "batch-size", True,
                    [len(b["ph"]) for b in batches], pop, "C03_budget")
    seen = sum(len(b["ph"]) for b in batches)
    if len(batches) > iters or seen > iters * pop:
        rep.problem("budget", "more than iters generations / iters*pop_size evaluations", where, "budget-exceeded", True, seen, iters * pop, "C03_budget")
    if fin["calls"] != seen or fin["remains"] != iters * pop - seen:
        rep.problem("budget", "get_remains_calls() is not iters*pop_size minus the number actually evaluated", where, "remains", True,
                    fin["remains"], iters * pop - seen, "C03_budget")
    # stopping rule
    B = LT.per_generation_best(tr)
    # the run may have been cut by the implementation; recompute on the generations it did run, and
    # check (a) it did not stop while no criterion held, (b) it did not continue after one held
    exp, _ = expected_generations(cfg, B)
    if exp != len(batches):
        rep.problem("stop", "the run continued after a stopping criterion was met" if exp < len(batches) else "unexpected stop",
                    dict(where, per_generation_best=B, expected=exp), "stop-late" if exp < len(batches) else "stop-early", True, len(batches), exp, "C03_stop_exact")
    elif len(batches) < iters:
        # it stopped before the budget: a criterion must hold at the last generation
        _, stop = expected_generations(cfg, B)
        if not stop:
            rep.problem("stop", "the run stopped early although no stopping criterion was met", dict(where, per_generation_best=B),
                        "stop-early", True, len(batches), iters, "C03_stop_exact")
    # target on the correct side, in terms of the raw objective
    if cfg.get("optimal_value") is not None and len(batches) < iters and cfg["nin"] is None:
        sign = -1.0 if cfg["minimization"] else 1.0
        raw = sign * B[-1]
        ok = raw <= cfg["optimal_value"] + cfg["err"] if cfg["minimization"] else raw >= cfg["optimal_value"] - cfg["err"]
        if not ok:
            rep.problem("stop", "stopped on optimal_value although the best objective is not within termination_error_value on the correct side",
                        dict(where, best_raw=raw), "aim-side", True, raw, cfg["optimal_value"], "C03_aim_side")
    # callbacks: exactly once per generation after the first, with the evaluated state
    if len(tr["snaps"]) != len(batches) - 1:
        rep.problem("callback", "on_generation was not invoked exactly once for each generation after the first", where, "callbacks", True,
                    len(tr["snaps"]), len(batches) - 1, "C03_budget")
    for i, s in enumerate(tr["snaps"]):
        if s["n_batches"] != i + 2 or s["calls"] != pop * (i + 2) or s["rec"][2] != B[i + 1]:
            rep.problem("callback", "on_generation saw a state that is not the evaluated state of its generation", dict(where, callback=i),
                        "callback-state", True, (s["n_batches"], s["calls"]), (i + 2, pop * (i + 2)), "C03_budget")
            break


def parallel_budget(ctx, rep):
    """n_jobs > 1 (process-based workers): the budget accounting must be the parent's — get_remains_calls() is
    iters*pop_size minus the individuals evaluated, with and without genotype_to_phenotype"""
    import thefittest.optimizers as O
    import c16_objectives as CO
    plans = [("GeneticAlgorithm", dict(str_len=6), CO.onemax, None), ("GeneticAlgorithm", dict(str_len=6), CO.weighted, CO.bits_to_pm1),
             ("DifferentialEvolution", dict(left_border=-2.0, right_border=2.0, num_variables=2), CO.sphere, CO.halve),
             ("SHAGA", dict(str_len=6), CO.onemax, None), ("SelfCGA", dict(str_len=6), CO.weighted, CO.bits_to_pm1)]
    for kind, kw, f, g in plans[: ctx.pick(5, 5)]:
        for nj in ((2,) if ctx.quick else (2, 3)):
            iters, pop, seed = ctx.rng.choice([3, 4]), ctx.rng.choice([8, 9]), ctx.rng.randrange(1 << 30)
            seen = []
            opt = getattr(O, kind)(f, iters=iters, pop_size=pop, n_jobs=nj, keep_history=True, random_state=seed, genotype_to_phenotype=g,
                                   on_generation=lambda o: seen.append((int(o._calls), int(o.get_remains_calls()))), **kw)
            opt.fit()
            rep.traces += 1
            rep.count("parallel-budget", (kind, nj, g is not None, seed))
            gens = len(opt.get_stats()["fitness"])
            case = dict(kind=kind, n_jobs=nj, iters=iters, pop_size=pop, g2p=g is not None, random_state=seed, generations=gens)
            if gens != iters or opt.get_remains_calls() != iters * pop - pop * gens or int(opt._calls) != pop * gens:
                rep.problem("budget", f"{kind} with n_jobs={nj}: get_remains_calls() = {opt.get_remains_calls()} after {gens} generations of {pop} "
                            f"individuals out of a budget of {iters * pop} (calls counted: {int(opt._calls)})", case, "budget:parallel", True,
                            int(opt.get_remains_calls()), iters * pop - pop * gens, "C03_budget")
            for i, (c, r) in enumerate(seen):
                if c != pop * (i + 2) or r != iters * pop - pop * (i + 2):
                    rep.problem("budget", f"{kind} with n_jobs={nj}: at the callback after generation {i + 1} calls={c}, remains={r}", dict(case, callback=i),
                                "budget:parallel", True, (c, r), (pop * (i + 2), iters * pop - pop * (i + 2)), "C03_budget")
                    break


def run(ctx, rep):
    _loop.run_all(ctx, rep, "C03", predicate, 40, 400)
    parallel_budget(ctx, rep)


def replay(ctx, rp):
    return _loop.replay_trace(ctx, rp, predicate)
