"""C19 — built-in metrics equal their textbook definitions: correspondence model <-> implementation.

Three-way per case: numba-compiled function (the real thing) vs its py_func run as plain Python
(mirror) vs the Coq models of coq/theories/Metrics.v (exact Q, tolerance 1e-12 relative) and the
bit-exact binary64 transcriptions of coq/theories/C19Check.v (PrimFloat.eqb).  The property
predicate is an independent textbook implementation in exact rational arithmetic (this file,
`ref_*`), scikit-learn being a second reference for the macro metrics on a sub-sample."""
from __future__ import annotations

import itertools
import math
from fractions import Fraction as Fr

import numpy as np

import common as C
import mirror as MR

RULE = ("classification: EVERY admissible pair (y_true label-encoded over k<=3 classes all occurring, y_predict in "
        "{0..k-1}^n) for n<=5 (quick) / n<=6 (thorough; n=7 partly, implementation-vs-reference only) plus random longer "
        "vectors (n<=300, k<=8): confusion_matrix, accuracy, macro recall/precision/F1 compiled vs mirror vs exact "
        "rational reference (<=4 ulp) vs Coq Q model (1e-12) vs Coq binary64 transcription (bit-exact); sklearn on a "
        "sub-sample; 2-D variants == row-wise scalar calls (bitwise). regression: random / dyadic / constant-target / "
        "perfect-prediction vectors, RMSE and R2 vs exact rational reference (1e-12 rel), Coq Q model, bit-exact "
        "binary64 transcription. cross-entropy: one-hot / soft targets, outputs incl. exact 0 and 1 and values beyond "
        "the clip bounds, vs math.log reference (1e-12 rel) and Coq model with ln as the table of libm values. "
        "A case is distinct by (family, inputs).")
ASSUMPTIONS = ["classification inputs admissible: y_true non-empty, label-encoded 0..k-1 with every class occurring, "
               "y_predict of the same length with values among the true classes (otherwise the compiled code indexes "
               "out of bounds)",
               "float inputs finite (no NaN/inf); arrays non-empty",
               "np.sqrt / np.log uninterpreted in the Q model (theorems are about the radicand / the summands)"]
TRUSTED = ["models: coq/theories/Metrics.v; checkers, binary64 transcriptions and the float->Q conversion Qof_float (via "
           "Prim2SF): coq/theories/C19Check.v; floats are sent to Coq as hex literals",
           "tolerances: counting metrics <= 4 ulp against the exact rational reference, 1e-12 relative (to max(1,|v|)) "
           "for float-summed quantities and in the Coq Q checkers; binary64 transcriptions compared bit-exactly",
           "cross-entropy: ln supplied to the Coq model as the table of math.log values (libm) on the clipped outputs"]
THEORIES = ["Base", "Metrics", "MetricsProofs", "C19Check", "RandomPrims", "RandomPrimsProofs", "RandomPrimsProofs2", "BinaryOps", "BinaryOpsProofs",
            "DEOps", "DEOpsProofs", "Py", "PyLemmas", "GenCode", "CodeEqC11", "CodeEqC06", "CodeEqC07", "CodeEqC19"]


def gen(ctx):
    """(T) regenerate gen/GenCode.v from the metric bodies in the working tree; fail closed"""
    import translate_code as TC
    TC.ensure(TC.C07_FUNCS + ["accuracy_score", "recall_score", "precision_score", "f1_score", "confusion_matrix"])


IMPORTS = "From TF Require Import Base Metrics C19Check.\nFrom Coq Require Import Floats."
MOD = "thefittest.utils._metrics."
LO, HI = 1e-7, 1 - 1e-7
TINY = 1e-10


# ----------------------------------------------------------------------- Coq literal helpers
def nl(xs):
    return "[" + "; ".join(str(int(v)) for v in xs) + "]%nat"


def nmat(m):
    return "[" + "; ".join("[" + "; ".join(str(int(v)) for v in r) + "]" for r in m) + "]%nat"


def fl(x):
    x = float(x)
    h = x.hex()
    return f"({h})%float"


def fll(xs):
    return "[" + "; ".join(float(v).hex() for v in xs) + "]%float"


def flmat(m):
    return "[" + "; ".join("[" + "; ".join(float(v).hex() for v in r) + "]" for r in m) + "]%float"


# ----------------------------------------------------------------------- tolerances
def ulp_close(impl, ref, ulps=4):
    """impl within `ulps` units in the last place of the correctly rounded exact reference"""
    r = float(ref)
    return math.isfinite(impl) and abs(impl - r) <= ulps * math.ulp(r)


def rel_close(impl, ref, tol=1e-12):
    r = float(ref)
    return math.isfinite(impl) and abs(impl - r) <= tol * max(1.0, abs(r))


def same_bits(a, b):
    return np.array_equal(np.asarray(a, dtype=np.float64).view(np.int64), np.asarray(b, dtype=np.float64).view(np.int64))


# ----------------------------------------------------------------------- independent textbook references
def ref_confusion(y, p, k):
    return [[sum(1 for a, b in zip(y, p) if a == i and b == j) for j in range(k)] for i in range(k)]


def ref_counts(y, p, k):
    tp = [sum(1 for a, b in zip(y, p) if a == c and b == c) for c in range(k)]
    fn = [sum(1 for a, b in zip(y, p) if a == c and b != c) for c in range(k)]
    fp = [sum(1 for a, b in zip(y, p) if a != c and b == c) for c in range(k)]
    return tp, fn, fp


def ref_classification(y, p):
    """exact values of the standard definitions; absent true positives score 0 for that class"""
    k = len(set(y))
    tp, fn, fp = ref_counts(y, p, k)
    acc = Fr(sum(1 for a, b in zip(y, p) if a == b), len(y))
    rec = sum((Fr(tp[c], tp[c] + fn[c]) if tp[c] else Fr(0)) for c in range(k)) / k
    prec = sum((Fr(tp[c], tp[c] + fp[c]) if tp[c] else Fr(0)) for c in range(k)) / k
    f1 = sum((Fr(2 * tp[c], 2 * tp[c] + fp[c] + fn[c]) if tp[c] else Fr(0)) for c in range(k)) / k
    return dict(confusion=ref_confusion(y, p, k), accuracy=acc, recall=rec, precision=prec, f1=f1,
                absent_tp=sum(1 for c in range(k) if tp[c] == 0))


def ref_regression(y, p):
    """exact rational: mean squared error, R^2 = 1 - SSres/SStot (SStot = 0 -> denominator 1e-10, the code's
    documented convention); returns (mse, r2, constant_target)"""
    ys, ps = [Fr(v) for v in y], [Fr(v) for v in p]
    n = len(ys)
    ssres = sum((a - b) ** 2 for a, b in zip(ys, ps))
    mean = sum(ys) / n
    sstot = sum((a - mean) ** 2 for a in ys)
    const = sstot == 0
    r2 = 1 - ssres / (Fr(TINY) if const else sstot)
    return ssres / n, r2, const, ssres


def clipf(x):
    return min(max(float(x), LO), HI)


def ref_crossentropy(T, O, clip_target=True):
    """mean over samples of  -sum_j t_ij * log(clip(o_ij))  (t clipped as well when clip_target);
    fsum = correctly rounded sum of the products"""
    rows = []
    for t, o in zip(T, O):
        rows.append(math.fsum(-(clipf(a) if clip_target else float(a)) * math.log(clipf(b)) for a, b in zip(t, o)))
    return math.fsum(rows) / len(rows)


# ----------------------------------------------------------------------- implementation access
class Impl:
    def __init__(self):
        MR.build()
        names = ["root_mean_square_error", "root_mean_square_error2d", "coefficient_determination",
                 "coefficient_determination2d", "categorical_crossentropy", "categorical_crossentropy3d",
                 "accuracy_score", "accuracy_score2d", "confusion_matrix", "recall_score", "recall_score2d",
                 "precision_score", "precision_score2d", "f1_score", "f1_score2d"]
        import importlib
        mod = importlib.import_module(MOD.rstrip("."))
        self.c, self.m, self.plain = {}, {}, []
        for n in names:
            try:
                self.c[n], self.m[n] = MR.compiled(MOD + n), MR.get(MOD + n)
            except KeyError:        # no longer a numba dispatcher (e.g. wrapped by a plain Python function): the public callable is what users get
                self.c[n] = self.m[n] = getattr(mod, n)
                self.plain.append(n)


_IMPL = None


def impl():
    global _IMPL
    if _IMPL is None:
        _IMPL = Impl()
    return _IMPL


SCALAR4 = ("accuracy_score", "recall_score", "precision_score", "f1_score")


def classification_outputs(fns, y, p):
    ya, pa = np.array(y, dtype=np.int64), np.array(p, dtype=np.int64)
    cm = [[int(v) for v in r] for r in fns["confusion_matrix"](ya, pa)]
    return (cm,) + tuple(float(fns[n](ya, pa)) for n in SCALAR4)


def classification_violations(y, p, out, ref=None):
    """property predicate on the implementation's output; list of (clause, impl, reference)"""
    ref = ref or ref_classification(y, p)
    cm, acc, rec, prec, f1 = out
    bad = []
    if cm != ref["confusion"]:
        bad.append(("C19_confusion", cm, ref["confusion"]))
    for name, v, clause in (("accuracy", acc, "C19_accuracy"), ("recall", rec, "C19_recall"),
                            ("precision", prec, "C19_precision"), ("f1", f1, "C19_f1")):
        # <= 4 ulp of the correctly rounded exact value (always met for k <= 3: a handful of float operations);
        # 1e-12 relative for many classes, where k roundings accumulate.  accuracy is one division: 1 ulp.
        if not (ulp_close(v, ref[name], 1 if name == "accuracy" else 4) or (name != "accuracy" and rel_close(v, ref[name]))):
            bad.append((clause, v, ref[name]))
    return bad


def regression_outputs(fns, y, p):
    ya, pa = np.array(y, dtype=np.float64), np.array(p, dtype=np.float64)
    return float(fns["root_mean_square_error"](ya, pa)), float(fns["coefficient_determination"](ya, pa))


def regression_violations(y, p, out, ref=None):
    mse, r2, const, ssres = ref or ref_regression(y, p)
    rmse_i, r2_i = out
    bad = []
    if not (rmse_i >= 0 and rel_close(rmse_i * rmse_i, mse) and rel_close(rmse_i, math.sqrt(mse))):
        bad.append(("C19_rmse", rmse_i, math.sqrt(mse)))
    if list(y) == list(p):
        if r2_i != 1.0:
            bad.append(("C19_r2_perfect", r2_i, 1.0))
    elif not const:
        if not rel_close(r2_i, r2):
            bad.append(("C19_r2", r2_i, float(r2)))
    else:
        # constant target: the textbook quotient is undefined; the code's convention is 1 - SSres/1e-10.  In
        # binary64 the mean of a constant non-dyadic vector need not be that constant, so SStot may come out as
        # rounding noise (< 1e-10) instead of 0: accept exactly the convention value or anything below it.
        if not (rel_close(r2_i, r2) or r2_i <= float(r2)):
            bad.append(("C19_r2", r2_i, float(r2)))
    return bad


def crossentropy_violations(T, O, out):
    bad = []
    ref = ref_crossentropy(T, O, True)
    if not rel_close(out, ref):
        bad.append(("C19_crossentropy", out, ref))
    # deviation from the definition clipping only the prediction (targets in [0,1])
    if all(0.0 <= a <= 1.0 for t in T for a in t):
        c = max(len(t) for t in T)
        ref2 = ref_crossentropy(T, O, False)
        if not abs(out - ref2) <= c * 1e-7 * math.log(1e7) * (1 + 1e-6) + 1e-12 * max(1.0, abs(ref2)):
            bad.append(("C19_crossentropy_target_clip_deviation", out, ref2))
    return bad


# ----------------------------------------------------------------------- generators
def admissible_targets(n, k):
    for y in itertools.product(range(k), repeat=n):
        if len(set(y)) == k:
            yield y


def random_classification(rng):
    n = rng.randint(8, 300) if rng.random() < 0.8 else rng.randint(1, 12)
    k = rng.randint(1, min(8, n))
    y = list(range(k)) + [rng.randrange(k) for _ in range(n - k)]
    rng.shuffle(y)
    mode = rng.choice(["noisy", "random", "perfect", "one-class", "shifted"])
    if mode == "noisy":
        q = rng.random()
        p = [a if rng.random() < q else rng.randrange(k) for a in y]
    elif mode == "random":
        p = [rng.randrange(k) for _ in y]
    elif mode == "perfect":
        p = list(y)
    elif mode == "one-class":
        c = rng.randrange(k)
        p = [c] * n
    else:
        p = [(a + 1) % k for a in y]
    return y, p, mode


def random_regression(rng, i):
    mode = ["normal", "dyadic", "const-dyadic", "const-nondyadic", "perfect", "const-error", "wide", "grid", "tiny"][i % 9]
    n = rng.choice([1, 2, 4, 8, 16]) if mode in ("dyadic", "const-dyadic", "const-error") else rng.randint(1, 60)
    if mode == "grid":      # 2^-10 grid, short: cheap for the exact (non-normalising) Q model, inexact in binary64
        n = rng.randint(1, 12)
        y = [rng.randint(-20000, 20000) / 1024 for _ in range(n)]
        p = [a + rng.randint(-2000, 2000) / 1024 for a in y]
    elif mode == "normal":
        y = [rng.gauss(0, 10) for _ in range(n)]
        p = [a + rng.gauss(0, 1) for a in y]
    elif mode == "tiny":    # non-constant targets whose total sum of squares is far below 1e-10
        n = rng.randint(2, 8)
        sc = 10.0 ** rng.randint(-9, -6)
        y = [rng.randint(1, 9) * sc for _ in range(n)]
        if len(set(y)) == 1:
            y[0] += sc
        p = [a + rng.choice([-0.5, 0.5, 0.25]) * sc for a in y]
    elif mode == "wide":
        s = 10.0 ** rng.randint(-6, 6)
        y = [rng.gauss(0, 1) * s for _ in range(n)]
        p = [rng.gauss(0, 1) * s for _ in range(n)]
    elif mode == "dyadic":
        y = [rng.randint(-32, 32) / 8 for _ in range(n)]
        p = [rng.randint(-32, 32) / 8 for _ in range(n)]
    elif mode == "const-dyadic":
        c = rng.randint(-32, 32) / 8
        y = [c] * n
        p = [c if rng.random() < 0.5 else rng.randint(-32, 32) / 8 for _ in range(n)]
    elif mode == "const-nondyadic":
        c = rng.choice([0.1, 0.3, 1 / 3, 2.7, -0.7, 1e-3, 123.456])
        y = [c] * n
        p = [c if rng.random() < 0.5 else c + rng.gauss(0, 1) for _ in range(n)]
    elif mode == "perfect":
        y = [rng.gauss(0, 10) for _ in range(n)]
        if rng.random() < 0.3:
            y = [y[0]] * n
        p = list(y)
    else:  # const-error: |y - p| constant, so the mean squared error is a perfect square (exact sqrt)
        e = rng.randint(1, 64) / 16
        y = [rng.randint(-32, 32) / 8 for _ in range(n)]
        p = [a + rng.choice([-e, e]) for a in y]
    return y, p, mode


def random_probabilities(rng, c, kind):
    if kind == "onehot":
        j = rng.randrange(c)
        return [1.0 if i == j else 0.0 for i in range(c)]
    if kind == "dyadic":
        cuts = sorted(rng.randint(0, 16) for _ in range(c - 1))
        parts = [b - a for a, b in zip([0] + cuts, cuts + [16])]
        return [v / 16 for v in parts]
    if kind == "extreme":   # values beyond the clip bounds on both sides
        v = [rng.choice([0.0, 1e-9, 1e-7, 5e-8, 1 - 1e-9, 1.0, 1 - 1e-7, 0.5, 3e-7]) for _ in range(c)]
        return v
    e = [math.exp(rng.gauss(0, 2)) for _ in range(c)]
    s = sum(e)
    return [x / s for x in e]


def random_crossentropy(rng):
    n, c = rng.randint(1, 6), rng.randint(1, 5)
    tk = rng.choice(["onehot", "onehot", "dyadic", "softmax"])
    ok = rng.choice(["softmax", "softmax", "onehot", "dyadic", "extreme"])
    T = [random_probabilities(rng, c, tk) for _ in range(n)]
    O = [random_probabilities(rng, c, ok) for _ in range(n)]
    if ok == "onehot" and tk == "onehot" and rng.random() < 0.5:
        O = [list(t) for t in T]          # perfect prediction with exact 0/1 entries
    return T, O, tk + "/" + ok


def ln_table(Os):
    keys = sorted({clipf(v) for O in Os for row in O for v in row})
    return "[" + "; ".join(f"({fl(k)}, {fl(math.log(k))})" for k in keys) + "]"


# ----------------------------------------------------------------------- the run
def run(ctx, rep):
    I = impl()
    rng = ctx.rng
    fams = {}

    def fam(name, check, ctype, shard):
        fams[name] = C.CoqCases(ctx.scratch, name, IMPORTS, check, ctype, shard=shard)
        return fams[name]

    f_cnt = fam("counting", "chk_counting",
                "list nat * list nat * list (list nat) * (float * float * float * float)", 1300)
    f_bcnt = fam("batch_counting", "chk_batch_counting", "list nat * list (list nat) * (list float * list float * list float * list float)", 40)
    f_reg = fam("regression", "chk_regression", "list float * list float * float * float", 150)
    f_regx = fam("regression_exact", "chk_regression_exact", "list float * list float * float * float", 150)
    f_regf = fam("regression_f", "chk_regression_f", "list float * list float * float * float", 300)
    f_breg = fam("batch_regression", "chk_batch_regression", "list float * list (list float) * list float * list float", 30)
    f_bregf = fam("batch_regression_f", "chk_batch_regression_f", "list float * list (list float) * list float * list float", 60)
    f_ce = fam("crossentropy", "chk_crossentropy",
               "float * float * list (float * float) * list (list float) * list (list float) * float", 150)
    f_bce = fam("batch_crossentropy", "chk_batch_crossentropy",
                "float * float * list (float * float) * list (list float) * list (list (list float)) * list float", 40)

    def report(family, case, bad, what):
        for clause, got, want in bad[:3]:
            rep.problem(family, f"{what}: {clause} impl={got!r} reference={want!r}", case,
                        f"{family}:{clause}", True, got, want, clause)

    def one_classification(y, p, family, to_coq=True, use_mirror=True):
        y, p = list(y), list(p)
        case = dict(fn="classification", y_true=y, y_predict=p)
        out = classification_outputs(I.c, y, p)
        ref = ref_classification(y, p)
        rep.count(family, (tuple(y), tuple(p)), nontrivial=len(y) >= 2)
        rep.hist("absent_tp_classes", ref["absent_tp"])
        report(family, case, classification_violations(y, p, out, ref), "metric differs from its textbook definition")
        if use_mirror:
            try:
                om = classification_outputs(I.m, y, p)
            except Exception as e:
                om = f"{type(e).__name__}: {e}"
            if om != out and not (isinstance(om, tuple) and om[0] == out[0]
                                  and all(ulp_close(a, b, 4) for a, b in zip(out[1:], om[1:]))):   # numpy's mean is pairwise, numba's sequential
                rep.problem(family, "compiled and mirror (py_func) disagree", case, family + ":compiled-vs-mirror", False, out, om)
        if to_coq:
            cm, acc, rec, prec, f1 = out
            f_cnt.add(f"({nl(y)}, {nl(p)}, {nmat(cm)}, ({fl(acc)}, {fl(rec)}, {fl(prec)}, {fl(f1)}))", case)
        return out

    def batch_classification(y, P):
        ya, Pa = np.array(y, dtype=np.int64), np.array(P, dtype=np.int64)
        return np.stack([I.c[n + "2d"](ya, Pa) for n in SCALAR4], axis=1)

    # ---------------- exhaustive classification
    nmax = ctx.pick(5, 6)
    n_py_only = ctx.pick(0, 7)
    sk_pool = []
    for n in range(1, max(nmax, n_py_only) + 1):
        for k in range(1, min(3, n) + 1):
            preds = list(itertools.product(range(k), repeat=n))
            full = n <= nmax
            targets = list(admissible_targets(n, k))
            if not full and k == 3:       # n = 7, k = 3: 300 random targets x every prediction vector
                targets = rng.sample(targets, 300)
            for y in targets:
                B = batch_classification(y, preds)
                rows_out = [one_classification(y, p, "exhaustive" if full else "n7-impl-vs-reference",
                                               to_coq=full, use_mirror=full)[1:] for p in preds]
                if not same_bits(rows_out, B):     # 2-D variants == row-wise scalar calls, bit for bit
                    r = next(i for i in range(len(preds)) if not same_bits(rows_out[i], B[i]))
                    rep.problem("batch", f"2-D batch variant differs from the row-wise scalar call (first at row {r})",
                                dict(fn="classification2d", y_true=list(y), y_predict2d=[list(p) for p in preds]),
                                "batch:C19_batch_rowwise", True, B[r].tolist(), list(rows_out[r]), "C19_batch_rowwise")
                if full:
                    rep.hist("exhaustive_targets(n,k)", (n, k))
                    sk_pool.append((y, k))
                    if len(preds) <= 32 or rng.random() < 0.02:
                        # the same batch through the literal loop model + mirror of the 2-D functions
                        ya, Pa = np.array(y, dtype=np.int64), np.array(preds, dtype=np.int64)
                        Bm = np.stack([I.m[nm + "2d"](ya, Pa) for nm in SCALAR4], axis=1)
                        rep.count("batch-classification", (tuple(y), "all-preds"))
                        if not np.allclose(B, Bm, rtol=0, atol=1e-15):
                            rep.problem("batch", "compiled and mirror 2-D variants disagree", dict(fn="classification2d", y_true=list(y)),
                                        "batch:compiled-vs-mirror", False, B.tolist(), Bm.tolist())
                        f_bcnt.add(f"({nl(y)}, {nmat(preds)}, ({fll(B[:, 0])}, {fll(B[:, 1])}, {fll(B[:, 2])}, {fll(B[:, 3])}))",
                                   dict(fn="classification2d", y_true=list(y), y_predict2d=[list(p) for p in preds]))
    rep.sample(dict(family="exhaustive", y_true=[0, 1, 2, 2, 1], y_predict=[0, 2, 2, 1, 1],
                    impl=classification_outputs(I.c, [0, 1, 2, 2, 1], [0, 2, 2, 1, 1])))

    C.log(f"[C19] exhaustive classification done, evaluations={rep.evaluations}")
    # ---------------- random longer classification (k <= 8, n <= 300)
    for i in range(ctx.pick(400, 4000)):
        y, p, mode = random_classification(rng)
        rep.hist("random_classification_mode", mode)
        rep.hist("random_classification_n", 50 * (len(y) // 50))
        rep.hist("random_classification_k", len(set(y)))
        out = one_classification(y, p, "random-classification")
        if i < 2:
            rep.sample(dict(family="random-classification", y_true=y, y_predict=p, impl=out))
        if i % 8 == 0:
            rows = [p] + [random_like(rng, y) for _ in range(rng.randint(0, 4))]
            B = batch_classification(y, rows)
            rep.count("batch-classification", (tuple(y), tuple(map(tuple, rows))))
            case = dict(fn="classification2d", y_true=y, y_predict2d=rows)
            for r, row in enumerate(rows):
                o = classification_outputs(I.c, y, row)
                if not same_bits(o[1:], B[r]):
                    rep.problem("batch", "2-D batch variant differs from the row-wise scalar call", case,
                                "batch:C19_batch_rowwise", True, B[r].tolist(), list(o[1:]), "C19_batch_rowwise")
            f_bcnt.add(f"({nl(y)}, {nmat(rows)}, ({fll(B[:, 0])}, {fll(B[:, 1])}, {fll(B[:, 2])}, {fll(B[:, 3])}))", case)

    C.log(f"[C19] random classification done, evaluations={rep.evaluations}")
    # ---------------- scikit-learn as a second reference (sub-sample)
    try:
        import warnings
        from sklearn import metrics as SM
        pool = []
        for y, k in sk_pool:
            n = len(y)
            if k ** n <= 9:
                pool += [(y, p) for p in itertools.product(range(k), repeat=n)]
            else:
                pool += [(y, tuple(rng.randrange(k) for _ in range(n))) for _ in range(2)]
        rng.shuffle(pool)
        pool = pool[:ctx.pick(700, 5000)] + [tuple(map(tuple, random_classification(rng)[:2])) for _ in range(ctx.pick(100, 1000))]
        with warnings.catch_warnings():
            warnings.simplefilter("ignore")
            for y, p in pool:
                ya, pa = np.array(y, dtype=np.int64), np.array(p, dtype=np.int64)
                labels = list(range(len(set(y))))
                sk = (SM.confusion_matrix(ya, pa, labels=labels).tolist(), float(SM.accuracy_score(ya, pa)),
                      float(SM.recall_score(ya, pa, labels=labels, average="macro", zero_division=0)),
                      float(SM.precision_score(ya, pa, labels=labels, average="macro", zero_division=0)),
                      float(SM.f1_score(ya, pa, labels=labels, average="macro", zero_division=0)))
                out = classification_outputs(I.c, y, p)
                rep.count("sklearn", (y, p))
                okk = sk[0] == out[0] and all(abs(a - b) <= max(4 * math.ulp(max(abs(a), abs(b), 2.0 ** -1022)), 1e-12) for a, b in zip(sk[1:], out[1:]))
                if not okk:
                    rep.problem("sklearn", "metric differs from scikit-learn (macro average, zero_division=0)",
                                dict(fn="classification", y_true=list(y), y_predict=list(p)), "sklearn:macro", True, out, sk,
                                "C19_recall/precision/f1")
    except ImportError as e:      # second reference only; absence is recorded, not an alarm
        rep.hist("sklearn", "unavailable: " + str(e)[:80])

    C.log(f"[C19] sklearn done, evaluations={rep.evaluations}")
    # ---------------- regression
    for i in range(ctx.pick(700, 7000)):
        y, p, mode = random_regression(rng, i)
        case = dict(fn="regression", y_true=y, y_predict=p, mode=mode)
        out = regression_outputs(I.c, y, p)
        ref = ref_regression(y, p)
        rep.count("regression", (tuple(y), tuple(p)), nontrivial=len(y) >= 2)
        rep.hist("regression_mode", mode)
        report("regression", case, regression_violations(y, p, out, ref), "metric differs from its textbook definition")
        mse, r2, const, ssres = ref
        # the exact model is comparable unless binary64 rounding turned a constant target's SStot into noise
        # (the implementation then divides by that noise instead of 1e-10; see notes/C19.md)
        q_ok = (not const) or rel_close(out[1], r2)
        # Coq's Q does not normalise: sums of n full-precision squares have ~n^2*100-bit denominators, so the exact
        # model gets the short / coarse-grid vectors and the binary64 transcription gets everything
        q_cheap = mode in ("grid", "dyadic", "const-dyadic", "const-error") or len(y) <= 4
        rep.hist("regression_branch", "varying-target" if not const else
                 ("constant-target: 1e-10 branch" if q_ok else "constant-target: binary64 SStot is rounding noise, not 0"))
        om = regression_outputs(I.m, y, p)
        if not (rel_close(om[0], out[0]) and (const or rel_close(om[1], out[1], 1e-10))):   # (constant targets: branch depends on summation order)
            rep.problem("regression", "compiled and mirror (py_func) disagree", case, "regression:compiled-vs-mirror", False, out, om)
        f_regf.add(f"({fll(y)}, {fll(p)}, {fl(out[0])}, {fl(out[1])})", case)
        if q_ok and q_cheap:
            (f_regx if mode == "const-error" else f_reg).add(f"({fll(y)}, {fll(p)}, {fl(out[0])}, {fl(out[1])})", case)
        if i < 2:
            rep.sample(dict(family="regression", y_true=y, y_predict=p, impl=out))
        if i % 3 == 0:
            rows = [p] + [[v + rng.randint(-2000, 2000) / 1024 for v in y] for _ in range(rng.randint(0, 3))] + [list(y)]
            ya, Pa = np.array(y, dtype=np.float64), np.array(rows, dtype=np.float64)
            b1, b2 = I.c["root_mean_square_error2d"](ya, Pa), I.c["coefficient_determination2d"](ya, Pa)
            bcase = dict(fn="regression2d", y_true=y, y_predict2d=rows)
            rep.count("batch-regression", (tuple(y), tuple(map(tuple, rows))))
            sc = [regression_outputs(I.c, y, r) for r in rows]
            if not (same_bits([s[0] for s in sc], b1) and same_bits([s[1] for s in sc], b2)):
                rep.problem("batch", "2-D batch variant differs from the row-wise scalar call", bcase, "batch:C19_batch_rowwise",
                            True, [b1.tolist(), b2.tolist()], sc, "C19_batch_rowwise")
            m1, m2 = I.m["root_mean_square_error2d"](ya, Pa), I.m["coefficient_determination2d"](ya, Pa)
            if not all(rel_close(a, b) for a, b in zip(m1, b1)):
                rep.problem("batch", "compiled and mirror 2-D variants disagree", bcase, "batch:compiled-vs-mirror", False, b1.tolist(), m1.tolist())
            f_bregf.add(f"({fll(y)}, {flmat(rows)}, {fll(b1)}, {fll(b2)})", bcase)
            if not const and q_cheap:   # (constant targets: see q_ok above; the bit-exact family covers them)
                f_breg.add(f"({fll(y)}, {flmat(rows)}, {fll(b1)}, {fll(b2)})", bcase)

    C.log(f"[C19] regression done, evaluations={rep.evaluations}")
    # ---------------- cross-entropy
    ce_prev = {}
    for i in range(ctx.pick(500, 5000)):
        T, O, kind = random_crossentropy(rng)
        case = dict(fn="crossentropy", target=T, output=O, kind=kind)
        Ta, Oa = np.array(T, dtype=np.float64), np.array(O, dtype=np.float64)
        out = float(I.c["categorical_crossentropy"](Ta, Oa))
        rep.count("crossentropy", (tuple(map(tuple, T)), tuple(map(tuple, O))))
        rep.hist("crossentropy_kind(target/output)", kind)
        rep.hist("crossentropy_clip_active", any(v < LO or v > HI for r in O for v in r))
        report("crossentropy", case, crossentropy_violations(T, O, out), "metric differs from its textbook definition")
        om = float(I.m["categorical_crossentropy"](Ta, Oa))
        if not rel_close(om, out):
            rep.problem("crossentropy", "compiled and mirror (py_func) disagree", case, "crossentropy:compiled-vs-mirror", False, out, om)
        f_ce.add(f"({fl(LO)}, {fl(HI)}, {ln_table([O])}, {flmat(T)}, {flmat(O)}, {fl(out)})", case)
        if i < 2:
            rep.sample(dict(family="crossentropy", target=T, output=O, impl=out))
        if i % 5 == 0:
            n, c = len(T), len(T[0])
            O3 = [O] + [[random_probabilities(rng, c, rng.choice(["softmax", "onehot", "extreme"])) for _ in range(n)]
                        for _ in range(rng.randint(0, 3))]
            O3a = np.array(O3, dtype=np.float64)
            b = I.c["categorical_crossentropy3d"](Ta, O3a)
            bcase = dict(fn="crossentropy3d", target=T, output3d=O3)
            # any sequence of calls: (1) a caller-owned target buffer refilled in place between two calls, (2) a released target
            # followed by a new one of the same shape (CPython re-uses the address, hence id())
            prevT = ce_prev.get(Ta.shape)
            ce_prev[Ta.shape] = Ta.copy()
            if prevT is not None:
                buf = prevT.copy()
                I.c["categorical_crossentropy3d"](buf, O3a)
                buf[...] = Ta
                b_buf = I.c["categorical_crossentropy3d"](buf, O3a)
                t1 = prevT.copy()
                I.c["categorical_crossentropy3d"](t1, O3a)
                del t1
                t2 = Ta.copy()
                b_new = I.c["categorical_crossentropy3d"](t2, O3a)
                for label, got in (("a target buffer refilled in place is scored against its earlier contents", b_buf),
                                   ("a new target array of the same shape is scored against a released earlier target", b_new)):
                    if not same_bits(got, b):
                        rep.problem("batch", "3-D batch variant depends on an earlier call: " + label, dict(bcase, earlier_target=prevT.tolist()),
                                    "batch:stale-target", True, np.asarray(got).tolist(), np.asarray(b).tolist(), "C19_batch_rowwise")
            rep.count("batch-crossentropy", (tuple(map(tuple, T)), str(O3)))
            sc = [float(I.c["categorical_crossentropy"](Ta, O3a[j])) for j in range(len(O3))]
            if not same_bits(sc, b):
                rep.problem("batch", "3-D batch variant differs from the row-wise scalar call", bcase, "batch:C19_batch_rowwise",
                            True, b.tolist(), sc, "C19_batch_rowwise")
            bm = I.m["categorical_crossentropy3d"](Ta, O3a)
            if not all(rel_close(a, b_) for a, b_ in zip(bm, b)):
                rep.problem("batch", "compiled and mirror 3-D variants disagree", bcase, "batch:compiled-vs-mirror", False, b.tolist(), bm.tolist())
            f_bce.add(f"({fl(LO)}, {fl(HI)}, {ln_table(O3)}, {flmat(T)}, {C.clist([flmat(o) for o in O3])}, {fll(b)})", bcase)

    # ---------------- evaluate the models on every case
    C.log(f"[C19] cross-entropy done, evaluations={rep.evaluations}")
    for name, fc in fams.items():
        bad, errors = fc.run(timeout=1500)
        C.log(f"[C19] coq family {name}: {len(fc)} cases, {len(bad)} bad, {len(errors)} shard errors")
        rep.hist("coq_cases", name + ":" + str(len(fc)))
        for e in errors:
            rep.problem(name, "model evaluation failed: %s" % (e,), {}, "model-eval", False)
        for i in bad[:20]:
            already = any(p["case"] == C.jsonable(fc.meta[i]) and p["prop_violated"] for p in rep.problems)
            rep.problem(name, "model and implementation disagree", fc.meta[i], name + ":model-vs-impl", False,
                        None, None if already else fc.explain(i, "c"))
    rep.exhaustive = True
    rep.exhaustive_note = (f"classification: every admissible (y_true, y_predict) with n<={nmax}, k<=3 classes (all metrics, all "
                           f"three implementations + both Coq models)"
                           + (f"; n={n_py_only}: every pair for k<=2 and 300 random targets x every prediction for k=3, compiled "
                              f"implementation vs exact reference and batch==row-wise only" if n_py_only > nmax else ""))


def random_like(rng, y):
    k = len(set(y))
    return [rng.randrange(k) for _ in y]


# ----------------------------------------------------------------------- replay
def replay(ctx, rp) -> bool:
    """re-execute the first recorded problem against the real (compiled) code; True = property holds"""
    case = rp["first"]["case"] if "first" in rp else rp
    I = impl()
    fn = case.get("fn")
    ok = True
    if fn == "classification":
        y, p = case["y_true"], case["y_predict"]
        out = classification_outputs(I.c, y, p)
        bad = classification_violations(y, p, out)
        print("impl (confusion, accuracy, recall, precision, f1) =", out)
        print("reference =", {k: (str(v) if isinstance(v, Fr) else v) for k, v in ref_classification(y, p).items()})
        ok = not bad
    elif fn == "classification2d":
        y, rows = case["y_true"], case["y_predict2d"]
        ya, Pa = np.array(y, dtype=np.int64), np.array(rows, dtype=np.int64)
        B = np.stack([I.c[n + "2d"](ya, Pa) for n in SCALAR4], axis=1)
        for r, row in enumerate(rows):
            o = classification_outputs(I.c, y, row)
            if not same_bits(o[1:], B[r]) or classification_violations(y, row, o):
                print("row", r, "batch", B[r].tolist(), "scalar", o[1:])
                ok = False
    elif fn == "regression":
        y, p = case["y_true"], case["y_predict"]
        out = regression_outputs(I.c, y, p)
        bad = regression_violations(y, p, out)
        print("impl (rmse, r2) =", out, "reference (mse, r2, constant target) =", [str(v) for v in ref_regression(y, p)[:3]])
        ok = not bad
    elif fn == "regression2d":
        y, rows = case["y_true"], case["y_predict2d"]
        ya, Pa = np.array(y, dtype=np.float64), np.array(rows, dtype=np.float64)
        b1, b2 = I.c["root_mean_square_error2d"](ya, Pa), I.c["coefficient_determination2d"](ya, Pa)
        sc = [regression_outputs(I.c, y, r) for r in rows]
        ok = same_bits([s[0] for s in sc], b1) and same_bits([s[1] for s in sc], b2) and not any(
            regression_violations(y, r, s) for r, s in zip(rows, sc))
        print("batch", b1.tolist(), b2.tolist(), "scalar", sc)
    elif fn == "crossentropy":
        T, O = case["target"], case["output"]
        out = float(I.c["categorical_crossentropy"](np.array(T, dtype=np.float64), np.array(O, dtype=np.float64)))
        bad = crossentropy_violations(T, O, out)
        print("impl =", out, "reference =", ref_crossentropy(T, O, True), "prediction-only clipping =", ref_crossentropy(T, O, False))
        ok = not bad
    elif fn == "crossentropy3d":
        T, O3 = case["target"], case["output3d"]
        Ta, O3a = np.array(T, dtype=np.float64), np.array(O3, dtype=np.float64)
        b = I.c["categorical_crossentropy3d"](Ta, O3a)
        sc = [float(I.c["categorical_crossentropy"](Ta, O3a[j])) for j in range(len(O3))]
        ok = same_bits(sc, b) and not any(crossentropy_violations(T, O3[j], sc[j]) for j in range(len(O3)))
        print("batch", b.tolist(), "scalar", sc)
        if case.get("earlier_target") is not None:      # the recorded call sequence
            buf = np.array(case["earlier_target"], dtype=np.float64)
            I.c["categorical_crossentropy3d"](buf, O3a)
            buf[...] = Ta
            b_buf = I.c["categorical_crossentropy3d"](buf, O3a)
            t1 = np.array(case["earlier_target"], dtype=np.float64)
            I.c["categorical_crossentropy3d"](t1, O3a)
            del t1
            b_new = I.c["categorical_crossentropy3d"](Ta.copy(), O3a)
            print("after an earlier call: refilled buffer", np.asarray(b_buf).tolist(), "new array", np.asarray(b_new).tolist())
            ok = ok and same_bits(b_buf, sc) and same_bits(b_new, sc)
    else:
        print("replay: no executable case recorded (obligation / build problem):", rp.get("broken", rp.get("first", {}).get("what", ""))[:3])
        return False
    return ok
