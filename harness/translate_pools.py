"""Fail-closed AST translator: operator pools -> coq/gen/GenPools.v, DE strategy pool -> GenDEPool.v.

Extracts the three dict literals _selection_pool / _crossover_pool / _mutation_pool assigned in
GeneticAlgorithm.__init__ and DifferentialEvolution._mutation_pool.  Any AST shape it does not
recognise raises TranslateError naming the source line."""
from __future__ import annotations

import ast
import fractions
import os

import common as C


class TranslateError(Exception):
    pass


def _param(node, fn):
    if isinstance(node, ast.Constant) and isinstance(node.value, bool):
        raise TranslateError(f"{fn}:{node.lineno}: bool where a parameter was expected")
    if isinstance(node, ast.Constant) and isinstance(node.value, int):
        return f"PInt {C.cz(node.value)}"
    if isinstance(node, ast.Constant) and isinstance(node.value, float):
        fr = fractions.Fraction(node.value).limit_denominator(10 ** 6)
        if float(fr) != node.value:
            raise TranslateError(f"{fn}:{node.lineno}: float constant {node.value} is not a small rational")
        return f"PQ ({fr.numerator} # {fr.denominator})"
    if (isinstance(node, ast.BinOp) and isinstance(node.op, ast.Div)
            and isinstance(node.left, ast.Constant) and isinstance(node.right, ast.Constant)
            and isinstance(node.left.value, int) and isinstance(node.right.value, int) and node.right.value > 0):
        fr = fractions.Fraction(node.left.value, node.right.value)
        return f"PQ ({fr.numerator} # {fr.denominator})"
    if (isinstance(node, ast.Attribute) and isinstance(node.value, ast.Name) and node.value.id == "self"):
        return f'PAttr "{node.attr}"'
    raise TranslateError(f"{fn}:{getattr(node, 'lineno', '?')}: unrecognised parameter expression {ast.dump(node)[:120]}")


def _find_class(tree, name, fn):
    for n in tree.body:
        if isinstance(n, ast.ClassDef) and n.name == name:
            return n
    raise TranslateError(f"{fn}: class {name} not found")


def _dict_assignments(cls, fn):
    """all  self.<attr> = {...}  /  self.<attr>: T = {...}  anywhere in the class"""
    out = {}
    for n in ast.walk(cls):
        tgt = val = None
        if isinstance(n, ast.AnnAssign):
            tgt, val = n.target, n.value
        elif isinstance(n, ast.Assign) and len(n.targets) == 1:
            tgt, val = n.targets[0], n.value
        if (tgt is not None and isinstance(tgt, ast.Attribute) and isinstance(tgt.value, ast.Name)
                and tgt.value.id == "self" and isinstance(val, ast.Dict)):
            if tgt.attr in out:
                raise TranslateError(f"{fn}:{n.lineno}: {tgt.attr} assigned twice")
            out[tgt.attr] = val
    return out


def ga_pools(repo_src):
    fn = os.path.join(repo_src, "thefittest", "optimizers", "_geneticalgorithm.py")
    tree = ast.parse(open(fn).read())
    cls = _find_class(tree, "GeneticAlgorithm", fn)
    dicts = _dict_assignments(cls, fn)
    res = {}
    for attr, arity in (("_selection_pool", 2), ("_crossover_pool", 2), ("_mutation_pool", 3)):
        if attr not in dicts:
            raise TranslateError(f"{fn}: {attr} dict literal not found")
        d = dicts[attr]
        entries = []
        for k, v in zip(d.keys, d.values):
            if not (isinstance(k, ast.Constant) and isinstance(k.value, str)):
                raise TranslateError(f"{fn}:{d.lineno}: non-string key in {attr}")
            if not (isinstance(v, ast.Tuple) and len(v.elts) == arity and isinstance(v.elts[0], ast.Name)):
                raise TranslateError(f"{fn}:{v.lineno}: entry {k.value!r} of {attr} is not a (function, ...) tuple of {arity}")
            const = "false"
            if arity == 3:
                c = v.elts[2]
                if not (isinstance(c, ast.Constant) and isinstance(c.value, bool)):
                    raise TranslateError(f"{fn}:{v.lineno}: constant-rate flag of {k.value!r} is not a bool literal")
                const = "true" if c.value else "false"
            entries.append((k.value, v.elts[0].id, _param(v.elts[1], fn), const))
        res[attr] = entries
    return res


def de_pool(repo_src):
    fn = os.path.join(repo_src, "thefittest", "optimizers", "_differentialevolution.py")
    tree = ast.parse(open(fn).read())
    cls = _find_class(tree, "DifferentialEvolution", fn)
    dicts = _dict_assignments(cls, fn)
    if "_mutation_pool" not in dicts:
        raise TranslateError(f"{fn}: _mutation_pool dict literal not found")
    d = dicts["_mutation_pool"]
    entries = []
    for k, v in zip(d.keys, d.values):
        if not (isinstance(k, ast.Constant) and isinstance(k.value, str) and isinstance(v, ast.Name)):
            raise TranslateError(f"{fn}:{d.lineno}: unrecognised _mutation_pool entry")
        entries.append((k.value, v.id))
    return entries


def _fname(f):
    return getattr(f, "__name__", None) or getattr(getattr(f, "py_func", None), "__name__", None) or repr(f)


def _runtime_param(v1, v2, sentinels):
    if isinstance(v1, bool):
        raise TranslateError(f"runtime extraction: bool parameter {v1!r}")
    if v1 != v2:                                   # follows a constructor argument: name the attribute that carries it
        for attr, (a, b) in sentinels.items():
            if v1 == a and v2 == b:
                return f'PAttr "{attr}"'
        raise TranslateError(f"runtime extraction: parameter {v1!r}/{v2!r} varies with the constructor arguments but is none of them")
    if isinstance(v1, (int,)) or (hasattr(v1, "dtype") and v1.dtype.kind in "iu"):
        return f"PInt {C.cz(int(v1))}"
    fr = fractions.Fraction(float(v1)).limit_denominator(10 ** 6)
    if float(fr) != float(v1):
        raise TranslateError(f"runtime extraction: float parameter {v1!r} is not a small rational")
    return f"PQ ({fr.numerator} # {fr.denominator})"


def ga_pools_runtime():
    """the same three tables read from two LIVE GeneticAlgorithm instances built with different sentinel arguments
    (used when the source no longer has the dict-literal shape the AST reader understands, and as a cross-check)"""
    import numpy as np
    from thefittest.optimizers import GeneticAlgorithm
    sent = {"_tour_size": (11, 17), "_parents_num": (13, 19), "_mutation_rate": (0.123, 0.456)}

    def mk(i):
        return GeneticAlgorithm(lambda x: np.zeros(len(x)), iters=1, pop_size=20, str_len=4, tour_size=sent["_tour_size"][i],
                                parents_num=sent["_parents_num"][i], mutation_rate=sent["_mutation_rate"][i])
    a, b = mk(0), mk(1)
    res = {}
    for attr, arity in (("_selection_pool", 2), ("_crossover_pool", 2), ("_mutation_pool", 3)):
        da, db = getattr(a, attr), getattr(b, attr)
        if list(da.keys()) != list(db.keys()):
            raise TranslateError(f"runtime extraction: {attr} has different names in two instances")
        entries = []
        for k in da:
            va, vb = da[k], db[k]
            if not (isinstance(va, tuple) and len(va) == arity):
                raise TranslateError(f"runtime extraction: entry {k!r} of {attr} is not a tuple of {arity}")
            const = "false"
            if arity == 3:
                if not isinstance(va[2], bool):
                    raise TranslateError(f"runtime extraction: constant-rate flag of {k!r} is not a bool")
                const = "true" if va[2] else "false"
            entries.append((str(k), _fname(va[0]), _runtime_param(va[1], vb[1], sent), const))
        res[attr] = entries
    return res


def de_pool_runtime():
    import numpy as np
    from thefittest.optimizers import DifferentialEvolution
    o = DifferentialEvolution(lambda x: np.zeros(len(x)), iters=1, pop_size=8, left_border=-1.0, right_border=1.0, num_variables=2)
    return [(str(k), _fname(v)) for k, v in o._mutation_pool.items()]


def _canon_entry(e):
    k, f, p, c = e
    if p.startswith("PInt "):                      # PInt 1 and PQ (1 # 1) are the same parameter
        z = p[5:].strip("()%Z ")
        p = f"PQ ({z} # 1)"
    return (k, f, p.replace(" ", ""), c)


def tables_agree(x, y):
    return all(sorted(map(_canon_entry, x[a])) == sorted(map(_canon_entry, y[a])) for a in ("_selection_pool", "_crossover_pool", "_mutation_pool"))


SOURCE = {"ga": "ast", "de": "ast"}     # which reader produced the tables of this run (reported in the evidence)


def emit(repo_src=C.SRC):
    gen = os.path.join(C.COQ, "gen")
    os.makedirs(gen, exist_ok=True)
    try:
        pools = ga_pools(repo_src)
        SOURCE["ga"] = "ast"
    except TranslateError as e:
        if os.path.realpath(repo_src) != os.path.realpath(C.SRC):
            raise
        pools = ga_pools_runtime()                 # a harmless rewrite of the dict literals must not stop the check
        SOURCE["ga"] = f"runtime (AST reader: {e})"
    lines = ["(* GENERATED by harness/translate_pools.py from optimizers/_geneticalgorithm.py — do not edit *)",
             "From TF Require Import Pools.", "From Coq Require Import String.", "Open Scope string_scope.", ""]
    for attr, nm in (("_selection_pool", "selection_pool"), ("_crossover_pool", "crossover_pool"),
                     ("_mutation_pool", "mutation_pool")):
        body = ";\n  ".join(f'E "{k}" "{f}" ({p}) {c}' for k, f, p, c in pools[attr])
        lines.append(f"Definition {nm} : list entry := [\n  {body} ].\n")
    _write_if_changed(os.path.join(gen, "GenPools.v"), "\n".join(lines))
    try:
        de = de_pool(repo_src)
        SOURCE["de"] = "ast"
    except TranslateError as e:
        if os.path.realpath(repo_src) != os.path.realpath(C.SRC):
            raise
        de = de_pool_runtime()
        SOURCE["de"] = f"runtime (AST reader: {e})"
    body = ";\n  ".join(f'("{k}", "{f}")' for k, f in de)
    txt = ("(* GENERATED by harness/translate_pools.py from optimizers/_differentialevolution.py — do not edit *)\n"
           "From Coq Require Import String List.\nImport ListNotations.\nOpen Scope string_scope.\n\n"
           f"Definition de_mutation_pool : list (string * string) := [\n  {body} ].\n")
    _write_if_changed(os.path.join(gen, "GenDEPool.v"), txt)
    return pools, de


def _write_if_changed(path, txt):
    if os.path.exists(path) and open(path).read() == txt:
        return
    with open(path, "w") as fh:
        fh.write(txt)
