"""Fail-closed AST scan of every entropy source in algorithm code -> coq/gen/GenRngSites.v (C04).

  rng_sites : every call whose callee is rooted at  random.*, np.random.*, numpy.random.*  (or a name
              imported from those modules), anywhere under src/thefittest except tests/ and benchmarks/,
              with the enclosing function and whether that function is @njit-compiled;
  other_entropy : imports/uses of time, os.urandom, secrets, uuid, datetime.now, hash-order dependent
              constructs are listed so that a new one is noticed (must stay empty);
  seed_sites : what numba_seed seeds;  crs_branches : which branches of check_random_state call numba_seed."""
from __future__ import annotations

import ast
import os

import common as C

ENTROPY_MODULES = {"time", "secrets", "uuid", "datetime"}


class TranslateError(Exception):
    pass


def _root_chain(node):
    parts = []
    while isinstance(node, ast.Attribute):
        parts.append(node.attr)
        node = node.value
    if isinstance(node, ast.Name):
        parts.append(node.id)
        return list(reversed(parts))
    return None


def _is_njit(fn):
    for d in fn.decorator_list:
        n = d.func if isinstance(d, ast.Call) else d
        if isinstance(n, ast.Name) and n.id in ("njit", "jit"):
            return True
        if isinstance(n, ast.Attribute) and n.attr in ("njit", "jit"):
            return True
    return False


def scan(repo_src=C.SRC):
    sites, other, seeds, crs = [], [], [], []
    root = os.path.join(repo_src, "thefittest")
    for dp, dn, fns in os.walk(root):
        parts = dp.split(os.sep)
        if "tests" in parts or "benchmarks" in parts:
            continue
        for f in sorted(fns):
            if not f.endswith(".py"):
                continue
            path = os.path.join(dp, f)
            tree = ast.parse(open(path).read())
            mod = os.path.relpath(path, repo_src)[:-3].replace(os.sep, ".")
            rnd_names = set()      # names bound to python's random / numpy.random functions by import-from
            for n in ast.walk(tree):
                if isinstance(n, ast.ImportFrom) and n.level == 0 and n.module in ("random", "numpy.random"):
                    for a in n.names:
                        rnd_names.add(a.asname or a.name)
                if isinstance(n, ast.Import):
                    for a in n.names:
                        if a.name.split(".")[0] in ENTROPY_MODULES:
                            other.append((mod, "<import>", a.name))
                if isinstance(n, ast.ImportFrom) and n.module and n.module.split(".")[0] in ENTROPY_MODULES:
                    other.append((mod, "<import>", n.module))

            def visit(node, qual, njit):
                for ch in ast.iter_child_nodes(node):
                    if isinstance(ch, (ast.FunctionDef, ast.AsyncFunctionDef)):
                        visit(ch, qual + [ch.name], njit or _is_njit(ch))
                    elif isinstance(ch, ast.ClassDef):
                        visit(ch, qual + [ch.name], njit)
                    else:
                        for sub in ast.walk(ch):
                            if isinstance(sub, (ast.FunctionDef, ast.Lambda)) and sub is not ch:
                                continue
                            if isinstance(sub, ast.Call):
                                chain = _root_chain(sub.func)
                                if chain is None:
                                    continue
                                callee = ".".join(chain)
                                q = ".".join(qual) or "<module>"
                                is_rng = (chain[0] == "random" and len(chain) >= 2) or \
                                         (chain[:2] in (["np", "random"], ["numpy", "random"]) and len(chain) >= 3) or \
                                         (len(chain) == 1 and chain[0] in rnd_names)
                                if is_rng:
                                    if chain[-1] == "seed":
                                        seeds.append((mod, q, callee))
                                    elif chain[-1] in ("RandomState", "get_state", "mtrand"):
                                        pass            # constructing / reading a generator object draws nothing
                                    else:
                                        sites.append((mod, q, callee, njit))
                                if callee in ("os.urandom", "time.time", "time.time_ns", "time.perf_counter", "uuid.uuid4", "datetime.now", "datetime.datetime.now"):
                                    other.append((mod, q, callee))
            visit(tree, [], False)
            if mod == "thefittest.utils.random":
                for n in tree.body:
                    if isinstance(n, ast.FunctionDef) and n.name == "check_random_state":
                        # branches of the if / elif chain on `seed`
                        node = next((s for s in n.body if isinstance(s, ast.If)), None)
                        if node is None:
                            raise TranslateError(f"{path}:{n.lineno}: check_random_state has no if-chain")
                        while node is not None:
                            test = ast.unparse(node.test)
                            calls = any(isinstance(s, ast.Call) and _root_chain(s.func) == ["numba_seed"] for b in node.body for s in ast.walk(b))
                            raises = any(isinstance(s, ast.Raise) for b in node.body for s in ast.walk(b))
                            crs.append((test, calls, raises))
                            if len(node.orelse) == 1 and isinstance(node.orelse[0], ast.If):
                                node = node.orelse[0]
                            else:
                                if node.orelse:
                                    calls = any(isinstance(s, ast.Call) and _root_chain(s.func) == ["numba_seed"] for b in node.orelse for s in ast.walk(b))
                                    raises = any(isinstance(s, ast.Raise) for b in node.orelse for s in ast.walk(b))
                                    crs.append(("else", calls, raises))
                                node = None
    if not crs:
        raise TranslateError("check_random_state not found")
    return sorted(set(sites)), sorted(set(other)), sorted(set(seeds)), crs


def emit(repo_src=C.SRC):
    gen = os.path.join(C.COQ, "gen")
    os.makedirs(gen, exist_ok=True)
    sites, other, seeds, crs = scan(repo_src)
    def s(x):
        return '"' + x.replace('"', "'") + '"'
    b1 = ";\n  ".join(f"({s(m)}, {s(q)}, {s(c)}, {C.cbool(j)})" for m, q, c, j in sites)
    b2 = ";\n  ".join(f"({s(m)}, {s(q)}, {s(c)})" for m, q, c in other)
    b3 = ";\n  ".join(f"({s(m)}, {s(q)}, {s(c)})" for m, q, c in seeds)
    b4 = ";\n  ".join(f"({s(t)}, {C.cbool(c)}, {C.cbool(r)})" for t, c, r in crs)
    txt = ("(* GENERATED by harness/translate_rng.py — do not edit *)\n"
           "From Coq Require Import String List Bool.\nImport ListNotations.\nOpen Scope string_scope.\n\n"
           f"Definition rng_sites : list (string * string * string * bool) := [\n  {b1} ].\n\n"
           f"Definition other_entropy : list (string * string * string) := [\n  {b2} ].\n\n"
           f"Definition seed_sites : list (string * string * string) := [\n  {b3} ].\n\n"
           f"Definition crs_branches : list (string * bool * bool) := [\n  {b4} ].\n")
    path = os.path.join(gen, "GenRngSites.v")
    if not (os.path.exists(path) and open(path).read() == txt):
        open(path, "w").write(txt)
    return sites, other, seeds, crs
