"""translate_code.py — fail-closed translator from the BODIES of thefittest's numba helper functions to Gallina.

    /repo/src/thefittest/utils/{__init__,random,selections,crossovers,mutations,_metrics}.py,
    optimizers/{_differentialevolution,_shade}.py                     ->   coq/gen/GenCode.v

Every function named in TARGETS is translated statement by statement into a definition `py_<name>` built from
the combinators of coq/theories/Py.v (which is the semantics given to the subset).  The hand-written models
(RandomPrims.v, BinaryOps.v, DEOps.v, ...) are then PROVED equal to these definitions (theories/CodeEq*.v), so
the property theorems are theorems about what the source says now: an edit of a function body changes the
generated definition and the equivalence proof is re-checked on every run.

Fail-closed: any AST shape outside the subset raises Untranslatable(line, why); the function is then emitted as
a comment and every proof that mentions it stops compiling (= the tie is broken, reported by the check).

Subset and its reading (details in Py.v):
  * types from the @njit signature (int64/int8 -> Z, float64 -> Q, boolean -> bool, [:] -> list, [:, :] -> list list);
    for functions without a signature, from MANUAL_SIGS below;
  * straight-line assignments become `let`; `if` joins the variables assigned in a branch; loops thread exactly the
    variables that are assigned in their body and defined before them; a variable that is only defined inside a
    loop body or branch is local to it, and any later use is REJECTED (this is the shape of the original
    `argsort_k` defect: `max_id` used without being reset);
  * `a[i] = v` is accepted only when `a` was allocated by the function itself (copy / empty / zeros / arange /
    result of a call) and has not been aliased since — hence every translated function provably never writes to
    its parameters (NO_PARAM_WRITES below is emitted as a table);
  * random.random(), np.random.randint(0, n), np.random.uniform(l, h, n) pop draws; calls of other translated
    functions are calls of their translations; effectful sub-expressions are hoisted left to right;
  * break / continue / early return are compiled by pushing the rest of the block into the branches.
"""
from __future__ import annotations

import ast
import os
import sys
from fractions import Fraction

sys.path.insert(0, os.path.dirname(os.path.abspath(__file__)))
import common as C  # noqa: E402

OUT_FILE = os.path.join(C.COQ, "gen", "GenCode.v")

# (module path relative to src/thefittest, function names in translation order)
TARGETS = [
    ("utils/__init__.py", ["find_end_subtree_from_i", "find_id_args_from_i", "get_levels_tree_from_i", "binary_search_interval",
                           "check_for_value", "argsort_k", "find_pbest_id"]),
    ("utils/random.py", ["sattolo_shuffle", "sattolo_shuffle_2d", "random_weighted_sample", "random_sample", "flip_coin", "uniform", "randint"]),
    ("utils/selections.py", ["proportional_selection", "rank_selection", "tournament_selection"]),
    ("utils/crossovers.py", ["empty_crossover", "binomialGA", "one_point_crossover", "two_point_crossover",
                             "uniform_crossover", "uniform_proportional_crossover", "uniform_rank_crossover", "uniform_tournament_crossover", "binomial"]),
    ("utils/mutations.py", ["flip_mutation", "best_1", "rand_1", "rand_to_best1", "current_to_best_1", "best_2", "rand_2",
                            "current_to_rand_1", "current_to_pbest_1_archive", "current_to_pbest_1_archive_p_min"]),
    ("optimizers/_differentialevolution.py", ["bounds_control"]),
    ("optimizers/_shade.py", ["bounds_control_mean", "randc01", "randn01"]),
    ("utils/transformations.py", ["minmax_scale"]),
    ("utils/_metrics.py", ["accuracy_score", "confusion_matrix", "recall_score", "precision_score", "f1_score"]),
]
# plain-Python functions and methods of the adaptive optimizers (C15).  (module, class | None, function, output name, signature,
# {parameter: constant it is specialised to}).  A method's reads of `self._x` become leading parameters `self_x` (types in SELF_FIELDS);
# a store into self, or any other use of self, is rejected.  Specialising a parameter substitutes the constant and folds
# `<const> is None`, integer arithmetic on constants and `if <const>`: the call sites are matched to a specialisation by their shape.
SELF_FIELDS = {
    "SHADE": {"_pop_size": "int64", "_H_size": "int64", "_H_F": "float64[:]", "_H_CR": "float64[:]", "_population_g_i": "float64[:, :]",
              "_pbest_id": "int64[:]", "_population_archive": "float64[:, :]", "_left": "float64[:]", "_right": "float64[:]"},
    "DifferentialEvolution": {"_population_g_i": "float64[:, :]", "_left": "float64[:]", "_right": "float64[:]", "_thefittest_genotype": "float64[:]"},
    "SHAGA": {"_pop_size": "int64", "_H_size": "int64", "_H_MR": "float64[:]", "_H_CR": "float64[:]", "_str_len": "int64",
              "_fitness_i": "float64[:]", "_population_g_i": "int8[:, :]"},
    "SelfCGA": {"_K": "float64", "_iters": "int64"},
    "EvolutionaryAlgorithm": {"_pop_size": "int64", "_cpu_count": "int64"},
    "SamplingGrid": {"_powers": "int64[:]"}, "GrayCode": {"_powers": "int64[:]"},
    "GeneticAlgorithm": {"_fitness_scale_i": "float64[:]", "_fitness_rank_i": "float64[:]", "_population_g_i": "int8[:, :]"},
    "PDPGA": {"_fitness_scale_i": "float64[:]", "_fitness_rank_i": "float64[:]", "_population_g_i": "int8[:, :]", "_fitness_i": "float64[:]"},
    "jDE": {"_pop_size": "int64", "_F": "float64[:]", "_CR": "float64[:]", "_t_F": "float64", "_t_CR": "float64", "_F_min": "float64", "_F_max": "float64"},
}
METHOD_TARGETS_0 = [
    ("optimizers/_shade.py", None, "lehmer_mean", "lehmer_mean_unweighted", "float64(float64[:])", {"power": 2, "weight": None}),
    ("optimizers/_shade.py", None, "lehmer_mean", "lehmer_mean_weighted", "float64(float64[:], float64[:])", {"power": 2}),
    ("optimizers/_shade.py", "SHADE", "_update_u_F", "SHADE_update_u_F", "float64(float64, float64[:])", {}),
    ("optimizers/_shade.py", "SHADE", "_update_u_CR", "SHADE_update_u_CR", "float64(float64, float64[:], float64[:])", {}),
    ("optimizers/_shade.py", "SHADE", "_generate_F_CR", "SHADE_generate_F_CR", "(float64[:], float64[:])()", {}),
    ("optimizers/_shade.py", "SHADE", "_append_archive", "SHADE_append_archive", "float64[:, :](float64[:, :], float64[:, :])", {}),
    ("optimizers/_shaga.py", "SHAGA", "_update_u", "SHAGA_update_u", "float64(float64, float64[:], float64[:])", {}),
    ("optimizers/_shaga.py", "SHAGA", "_randc", "SHAGA_randc", "float64(float64, float64)", {}),
    ("optimizers/_shaga.py", "SHAGA", "_randn", "SHAGA_randn", "float64(float64, float64)", {}),
    ("optimizers/_shaga.py", "SHAGA", "_generate_MR_CR", "SHAGA_generate_MR_CR", "(float64[:], float64[:])()", {}),
    ("optimizers/_jde.py", "jDE", "_get_mutate_F", "jDE_get_mutate_F", "float64[:]()", {}),
    ("optimizers/_jde.py", "jDE", "_get_mutate_CR", "jDE_get_mutate_CR", "float64[:]()", {}),
    # a str-keyed dict whose key set never changes is modelled by its value list in key order, a key by its position (DICT_PARAMS);
    # the in-place update of the caller's dict is part of the result: the function returns (dict after the call, returned dict)
    ("optimizers/_selfcga.py", "SelfCGA", "_get_new_proba", "SelfCGA_get_new_proba", "(float64[:], float64[:])(float64[:], int64, float64)", {}),
    # the trial vector of one individual (the body of the oracle d_*_trials of the generation step)
    ("optimizers/_shade.py", "SHADE", "_get_new_individ_g", "SHADE_get_new_individ_g", "float64[:](float64[:], float64, float64)", {}),
    ("optimizers/_shaga.py", "SHAGA", "_get_new_individ_g", "SHAGA_get_new_individ_g", "int8[:](int8[:], float64, float64)", {}),
    ("optimizers/_differentialevolution.py", "DifferentialEvolution", "_get_new_individ_g", "DE_get_new_individ_g", "float64[:](float64[:], float64, float64)", {}),
    ("optimizers/_geneticalgorithm.py", "GeneticAlgorithm", "_get_new_individ_g", "GA_get_new_individ_g", "int8[:]()", {}),
    # the binary / Gray decoders of the sampling grid (C10): static methods, whole-array numpy
    ("utils/transformations.py", "SamplingGrid", "bit_to_int", "bit_to_int_default", "int64[:](int8[:, :])", {"powers": None}),
    ("utils/transformations.py", "SamplingGrid", "bit_to_int", "bit_to_int_powers", "int64[:](int8[:, :], int64[:])", {}),
    ("utils/transformations.py", "GrayCode", "gray_to_bit", "gray_to_bit", "int8[:, :](int8[:, :])", {}),
    ("utils/transformations.py", "GrayCode", "bit_to_gray", "bit_to_gray", "int8[:, :](int8[:, :])", {}),
    ("utils/transformations.py", "SamplingGrid", "_decode", "SamplingGrid_decode", "int64[:](int8[:, :])", {}),
    ("utils/transformations.py", "GrayCode", "_decode", "GrayCode_decode", "int64[:](int8[:, :])", {}),
    # n_jobs normalisation (C16): os.cpu_count() is the parameter `cpu`; `raise` is the failing computation
    ("base/_ea.py", "EvolutionaryAlgorithm", "_get_n_jobs", "EA_get_n_jobs", "int64(int64)", {}),
    ("optimizers/_pdpga.py", "PDPGA", "_choice_parent", "PDPGA_choice_parent", "float64(float64[:])", {}),
    ("optimizers/_pdpga.py", "PDPGA", "_get_new_individ_g", "PDPGA_get_new_individ_g", "(float64, int8[:])()", {}),
]
METHOD_TARGETS = [t for t in METHOD_TARGETS_0]
# a function-valued local bound by a pinned statement becomes a leading function parameter: (statement text, Coq type, result type, argument types)
FUNC_LOCALS = {"DE_get_new_individ_g": ("mutation_func = self._mutation_pool[self._specified_mutation]",
                                        "list Q -> list Q -> list (list Q) -> Q -> M (list Q)", "float64[:]", ["float64[:]", "float64[:]", "float64[:, :]", "float64"])}
# pool entries unpacked by pinned statements become leading parameters (a function and its configured parameters): name -> type
_SELF = "list Q -> list Q -> Z -> Z -> M (list Z)"
POOL_LOCALS = {"GA_get_new_individ_g": [
    ("selection_func, tour_size = self._selection_pool[specified_selection]",
     [("selection_func", ("F", _SELF, "int64[:]", ["float64[:]", "float64[:]", "int64", "int64"])), ("tour_size", "int64")]),
    ("crossover_func, quantity = self._crossover_pool[specified_crossover]",
     [("crossover_func", ("F", "list (list Z) -> list Q -> list Q -> M (list Z)", "int8[:]", ["int8[:, :]", "float64[:]", "float64[:]"])), ("quantity", "int64")]),
    ("mutation_func, proba, is_constant_rate = self._mutation_pool[specified_mutation]",
     [("mutation_func", ("F", "list Z -> Q -> M (list Z)", "int8[:]", ["int8[:]", "float64"])), ("proba", "float64"), ("is_constant_rate", "boolean")]),
]}
C16_METHODS = ["EA_get_n_jobs"]
C10_METHODS = ["bit_to_int_default", "bit_to_int_powers", "gray_to_bit", "bit_to_gray", "SamplingGrid_decode", "GrayCode_decode"]
C07_METHODS = ["SHADE_get_new_individ_g", "DE_get_new_individ_g"]
POOL_LOCALS["PDPGA_get_new_individ_g"] = POOL_LOCALS["GA_get_new_individ_g"]
# `self._f.append(E)` exactly once on every path: the appended value is part of the result — the function returns (appended value, result)
OUT_APPENDS = {"PDPGA_get_new_individ_g": "_previous_fitness_i"}
C06_METHODS = ["SHAGA_get_new_individ_g", "GA_get_new_individ_g", "PDPGA_choice_parent", "PDPGA_get_new_individ_g"]
DICT_PARAMS = {"SelfCGA_get_new_proba": ("proba_dict", "operator")}
C14_METHODS = ["SelfCGA_get_new_proba"]
# how a call site selects a specialisation: (callee, sorted names of the arguments given) -> output name
CALL_SPECS = {
    ("lehmer_mean", ("x",)): "lehmer_mean_unweighted",
    ("lehmer_mean", ("weight", "x")): "lehmer_mean_weighted",
}
C15_METHODS = [t[3] for t in METHOD_TARGETS if t[3] not in C14_METHODS + C07_METHODS + C06_METHODS + C16_METHODS + C10_METHODS]

# functions without an @njit signature: parameter / return types written as the signature would be
MANUAL_SIGS = {
    "empty_crossover": "int8[:](int8[:, :], float64[:], float64[:])",
    "minmax_scale": "float64[:](float64[:])",
    "uniform_tournament_crossover": "int8[:](int8[:, :], float64[:], float64[:])",
    "sattolo_shuffle_2d": "float64[:, :](float64[:, :])",
}
# extra fuel for while loops that consume no draws (a wrong value cannot make a theorem true: out of fuel is None and
# the equivalence theorems show the result is Some)
WHILE_FUEL = {
    "binary_search_interval": "List.length intervals",
    "find_end_subtree_from_i": "List.length n_args_array",
}

Z, Q, B = "Z", "Q", "B"
MANUAL_PARSED = {}


def L(t):
    return ("L", t)


def is_list(t):
    return isinstance(t, tuple) and t[0] == "L"


def coq_type(t):
    if isinstance(t, tuple) and t[0] == "F":
        return t[1]
    if isinstance(t, tuple) and t[0] == "T":
        return "(" + " * ".join(coq_type(x) for x in t[1]) + ")"
    if t == Z:
        return "Z"
    if t == Q:
        return "Q"
    if t == B:
        return "bool"
    if is_list(t):
        inner = coq_type(t[1])
        return "list " + (inner if " " not in inner else "(" + inner + ")")
    raise ValueError(t)


class Untranslatable(Exception):
    def __init__(self, node, why):
        self.line = getattr(node, "lineno", 0)
        self.why = why
        super().__init__(f"line {self.line}: {why}")


class NeedsMonad(Exception):
    pass


class NotJoined(Exception):
    def __init__(self, var):
        self.var = var


def sig_type(node):
    """type expression of an njit signature: int64, float64[:], int8[:, :]"""
    if isinstance(node, ast.Name):
        if node.id in ("int64", "int8", "int32"):
            return Z
        if node.id == "float64":
            return Q
        if node.id == "boolean":
            return B
    if isinstance(node, ast.Tuple):
        return ("T", tuple(sig_type(e) for e in node.elts))
    if isinstance(node, ast.Subscript) and isinstance(node.value, ast.Name):
        base = sig_type(node.value)
        sl = node.slice
        if isinstance(sl, ast.Slice):
            return L(base)
        if isinstance(sl, ast.Tuple) and len(sl.elts) == 2 and all(isinstance(e, ast.Slice) for e in sl.elts):
            return L(L(base))
    raise Untranslatable(node, "unsupported signature type " + ast.dump(node)[:80])


def parse_sig(node):
    """ret(args...)  ->  (ret type, [arg types])"""
    if not isinstance(node, ast.Call):
        raise Untranslatable(node, "signature is not a call")
    return sig_type(node.func), [sig_type(a) for a in node.args]


def qlit(v):
    fr = Fraction(repr(v)) if isinstance(v, float) else Fraction(v)
    n, d = fr.numerator, fr.denominator
    return f"({n} # {d})" if n >= 0 else f"(- ({-n} # {d}))"


def zlit(v):
    return str(v) if v >= 0 else f"({v})"


class Fn:
    """translation state of one function"""

    def __init__(self, tr, node, ret_t, arg_ts):
        self.tr, self.node, self.name = tr, node, node.name
        self.params = [a.arg for a in node.args.args]
        if len(self.params) != len(arg_ts):
            raise Untranslatable(node, "signature / parameter count mismatch")
        self.ret_t, self.arg_ts = ret_t, arg_ts
        self.tmp = 0
        self.monadic = False

    def fresh_tmp(self, base="t"):
        self.tmp += 1
        return f"{base}_{self.tmp}"


class Scope:
    """what is known at a program point"""

    def __init__(self, env=None, fresh=None, poisoned=None):
        self.env = dict(env or {})             # var -> type
        self.fresh = set(fresh or ())          # arrays allocated here and not aliased
        self.poisoned = set(poisoned or ())    # names whose Python value the model does not track

    def copy(self):
        return Scope(self.env, self.fresh, self.poisoned)


def cname(v):
    return v + "_" if v in ("end", "in", "at", "fun", "let", "match", "with", "then", "else", "if", "return", "true", "false", "left", "right", "max", "min", "size", "value") else v


def assigned_vars(stmts):
    """names (not subscripts' bases excluded: a store also re-binds the array variable) assigned anywhere in stmts"""
    out = []

    def tgt(t):
        if isinstance(t, ast.Name):
            if t.id not in out:
                out.append(t.id)
        elif isinstance(t, ast.Subscript):
            b = t.value
            while isinstance(b, ast.Subscript):
                b = b.value
            if isinstance(b, ast.Name) and b.id not in out:
                out.append(b.id)
        elif isinstance(t, (ast.Tuple, ast.List)):
            for e in t.elts:
                tgt(e)

    for s in stmts:
        for n in ast.walk(s):
            if isinstance(n, ast.Assign):
                for t in n.targets:
                    tgt(t)
            elif isinstance(n, (ast.AugAssign, ast.AnnAssign)):
                if getattr(n, "value", None) is not None:
                    tgt(n.target)
            elif isinstance(n, ast.For):
                tgt(n.target)
            elif isinstance(n, ast.Call) and isinstance(n.func, ast.Attribute) and n.func.attr in ("append", "pop") \
                    and isinstance(n.func.value, ast.Name):
                if n.func.value.id not in out:          # list.append / list.pop re-bind the list in the translation
                    out.append(n.func.value.id)
    return out


def has_flow(stmts, loop_level=True):
    """does the block contain return, or break/continue belonging to the enclosing loop"""
    for s in stmts:
        if isinstance(s, (ast.Return, ast.Raise)):
            return True
        if isinstance(s, (ast.Break, ast.Continue)) and loop_level:
            return True
        if isinstance(s, ast.If):
            if has_flow(s.body, loop_level) or has_flow(s.orelse, loop_level):
                return True
        if isinstance(s, (ast.For, ast.While)):
            if has_flow(s.body, False) or has_flow(s.orelse, False):
                return True
    return False


def has_break(stmts):
    for s in stmts:
        if isinstance(s, ast.Break):
            return True
        if isinstance(s, ast.If) and (has_break(s.body) or has_break(s.orelse)):
            return True
    return False


class Translator:
    def __init__(self, src_root):
        self.src_root = src_root
        self.funcs = {}        # name -> dict(ret_t, arg_ts, params, monadic, returns_fresh)
        self.out = []          # (name, text | None, error | None, module, line)

    # ------------------------------------------------------------------ expressions
    def coerce(self, code, t, want, node):
        if t == want:
            return code
        if t == Z and want == Q:
            return f"(ZtoQ {code})"
        raise Untranslatable(node, f"cannot use a value of type {t} where {want} is expected")

    def tup(self, names):
        if not names:
            return "tt"
        if len(names) == 1:
            return cname(names[0])
        return "(" + ", ".join(cname(n) for n in names) + ")"

    def pat(self, names):
        if not names:
            return "_"
        if len(names) == 1:
            return cname(names[0])
        return "'(" + ", ".join(cname(n) for n in names) + ")"

    def expr(self, fn: Fn, sc: Scope, e, pre: list, want=None):
        """returns (code, type); effectful sub-expressions are appended to pre as (tmp, monadic code)"""
        code, t = self._expr(fn, sc, e, pre)
        if want is not None:
            code = self.coerce(code, t, want, e)
            t = want
        return code, t

    def eff(self, fn, pre, mcode, t, node):
        if not fn.monadic:
            raise NeedsMonad()
        tmp = fn.fresh_tmp("r")
        pre.append((tmp, mcode))
        return tmp, t

    def _kwargs(self, call, names, defaults=None):
        """positional + keyword arguments of a call, in the order of `names`"""
        vals = dict(defaults or {})
        for n, a in zip(names, call.args):
            vals[n] = a
        if len(call.args) > len(names):
            raise Untranslatable(call, "too many arguments")
        for k in call.keywords:
            if k.arg not in names:
                raise Untranslatable(call, f"unknown keyword {k.arg}")
            vals[k.arg] = k.value
        return vals

    def _dtype(self, node):
        if node is None:
            return Q
        s = ast.unparse(node)
        if s in ("np.int64", "np.int8", "np.byte", "int64", "int"):
            return Z
        if s in ("np.float64", "float64", "float"):
            return Q
        raise Untranslatable(node, "unsupported dtype " + s)

    def _expr(self, fn, sc, e, pre):
        if isinstance(e, ast.Constant):
            if isinstance(e.value, bool):
                return ("true" if e.value else "false"), B
            if isinstance(e.value, int):
                return zlit(e.value), Z
            if isinstance(e.value, float):
                return qlit(e.value), Q
            raise Untranslatable(e, "constant " + repr(e.value))
        if isinstance(e, ast.List):
            # a Python list of ints (used as a stack by the tree helpers)
            cs = [self.expr(fn, sc, x, pre, Z)[0] for x in e.elts]
            return "([" + "; ".join(cs) + "] : list Z)", L(Z)
        if isinstance(e, ast.Tuple):
            cs = [self._expr(fn, sc, x, pre) for x in e.elts]
            return "(" + ", ".join(c for c, _ in cs) + ")", ("T", tuple(t for _, t in cs))
        if isinstance(e, ast.Name):
            if e.id in sc.poisoned:
                raise Untranslatable(e, f"'{e.id}' is read after the loop/branch that defines it (value not tracked: possibly uninitialised)")
            if e.id not in sc.env:
                raise Untranslatable(e, f"unknown name {e.id}")
            return cname(e.id), sc.env[e.id]
        if isinstance(e, ast.UnaryOp):
            c, t = self._expr(fn, sc, e.operand, pre)
            if isinstance(e.op, ast.Not):
                if t == Z:
                    return f"({c} =? 0)", B
                if t != B:
                    raise Untranslatable(e, "not on non-bool")
                return f"(negb {c})", B
            if isinstance(e.op, ast.USub):
                if t == Z:
                    return f"(- {c})", Z
                if t == Q:
                    return f"(- {c})%Q", Q
            raise Untranslatable(e, "unary operator")
        if isinstance(e, ast.BoolOp):
            parts = []
            for k, v in enumerate(e.values):
                sub = []
                c, t = self._expr(fn, sc, v, sub)
                if sub and k > 0:
                    raise Untranslatable(e, "effectful operand after the first one of and/or (short-circuit)")
                pre.extend(sub)
                if t != B:
                    raise Untranslatable(e, "and/or on non-bool")
                parts.append(c)
            op = "&&" if isinstance(e.op, ast.And) else "||"
            return "(" + f" {op} ".join(parts) + ")", B
        if isinstance(e, ast.Compare):
            operands = [e.left] + list(e.comparators)
            cs = [self._expr(fn, sc, o, pre) for o in operands]
            for o in operands[1:-1]:
                if not isinstance(o, (ast.Name, ast.Constant)):
                    raise Untranslatable(e, "chained comparison with a compound middle operand")
            parts = []
            for k, op in enumerate(e.ops):
                (a, ta), (b, tb) = cs[k], cs[k + 1]
                parts.append(self.compare(e, op, a, ta, b, tb))
            if len(parts) == 1 and cs[0][1] == L(Q) and cs[1][1] in (Z, Q):
                return parts[0], L(B)
            return (parts[0] if len(parts) == 1 else "(" + " && ".join(parts) + ")"), B
        if isinstance(e, ast.BinOp):
            a, ta = self._expr(fn, sc, e.left, pre)
            b, tb = self._expr(fn, sc, e.right, pre)
            return self.binop(e, e.op, a, ta, b, tb)
        if isinstance(e, ast.Subscript):
            return self.subscript(fn, sc, e, pre)
        if isinstance(e, ast.Attribute):
            if e.attr == "size":
                c, t = self._expr(fn, sc, e.value, pre)
                if is_list(t) and not is_list(t[1]):
                    return f"(zlen {c})", Z
            raise Untranslatable(e, "attribute " + e.attr)
        if isinstance(e, ast.Call):
            return self.call(fn, sc, e, pre)
        raise Untranslatable(e, "expression " + type(e).__name__)

    def compare(self, node, op, a, ta, b, tb):
        if ta == Z and tb == Z:
            tab = {ast.Lt: "<?", ast.LtE: "<=?", ast.Gt: ">?", ast.GtE: ">=?", ast.Eq: "=?"}
            if type(op) in tab:
                return f"({a} {tab[type(op)]} {b})"
            if isinstance(op, ast.NotEq):
                return f"(negb ({a} =? {b}))"
        if ta in (Z, Q) and tb in (Z, Q):
            a, b = self.coerce(a, ta, Q, node), self.coerce(b, tb, Q, node)
            if isinstance(op, ast.Lt):
                return f"(Qltb {a} {b})"
            if isinstance(op, ast.LtE):
                return f"(Qle_bool {a} {b})"
            if isinstance(op, ast.Gt):
                return f"(Qltb {b} {a})"
            if isinstance(op, ast.GtE):
                return f"(Qle_bool {b} {a})"
            if isinstance(op, ast.Eq):
                return f"(Qeq_bool {a} {b})"
            if isinstance(op, ast.NotEq):
                return f"(negb (Qeq_bool {a} {b}))"
        if ta == L(Q) and tb in (Z, Q) and isinstance(op, ast.Lt):
            return f"(ltmaskQ {a} {self.coerce(b, tb, Q, node)})"       # element-wise array < scalar: typed list bool by the caller
        if ta == L(Z) and tb == L(Z) and isinstance(op, ast.Eq):
            return f"(eqmaskZ {a} {b})"      # typed below by the caller through astype
        raise Untranslatable(node, f"comparison {type(op).__name__} on {ta}, {tb}")

    def binop(self, node, op, a, ta, b, tb):
        if ta == Z and tb == Z:
            tab = {ast.Add: "+", ast.Sub: "-", ast.Mult: "*", ast.FloorDiv: "/", ast.Mod: "mod"}
            if type(op) in tab:
                return f"({a} {tab[type(op)]} {b})", Z
            if isinstance(op, ast.Div):
                return f"(ZtoQ {a} / ZtoQ {b})%Q", Q
        if ta in (Z, Q) and tb in (Z, Q):
            a, b = self.coerce(a, ta, Q, node), self.coerce(b, tb, Q, node)
            tab = {ast.Add: "+", ast.Sub: "-", ast.Mult: "*", ast.Div: "/"}
            if type(op) in tab:
                return f"({a} {tab[type(op)]} {b})%Q", Q
        if ta == L(Q) and tb == L(Q):
            tab = {ast.Add: "vadd", ast.Sub: "vsub", ast.Mult: "vmulv"}
            if type(op) in tab:
                return f"({tab[type(op)]} {a} {b})", L(Q)
        if isinstance(op, ast.Pow) and a == "2" and ta == Z and tb == L(Z):
            return f"(pow2s {b})", L(Z)
        if ta in (Z, Q) and tb == L(Q) and isinstance(op, ast.Mult):
            return f"(smul {self.coerce(a, ta, Q, node)} {b})", L(Q)
        if ta == L(Q) and tb in (Z, Q) and isinstance(op, ast.Mult):
            return f"(smul {self.coerce(b, tb, Q, node)} {a})", L(Q)
        if ta in (Z, Q) and tb == L(Q) and isinstance(op, ast.Add):
            return f"(sadd {self.coerce(a, ta, Q, node)} {b})", L(Q)
        if ta == L(Q) and tb in (Z, Q) and isinstance(op, ast.Sub):
            return f"(vsubs {a} {self.coerce(b, tb, Q, node)})", L(Q)
        if ta == L(Q) and tb in (Z, Q) and isinstance(op, ast.Div):
            return f"(vdivs {a} {self.coerce(b, tb, Q, node)})", L(Q)
        raise Untranslatable(node, f"operator {type(op).__name__} on {ta}, {tb}")

    def subscript(self, fn, sc, e, pre):
        # x.shape[k]
        if isinstance(e.value, ast.Attribute) and e.value.attr == "shape" and isinstance(e.slice, ast.Constant):
            c, t = self._expr(fn, sc, e.value.value, pre)
            if is_list(t) and e.slice.value == 0:
                return f"(zlen {c})", Z
            if is_list(t) and is_list(t[1]) and e.slice.value == 1:
                return f"(zlen (getR {c} 0))", Z
            raise Untranslatable(e, "shape index")
        c, t = self._expr(fn, sc, e.value, pre)
        if not is_list(t):
            raise Untranslatable(e, "subscript of a non-array")
        sl = e.slice
        if isinstance(sl, ast.Slice):
            if sl.step is not None:
                raise Untranslatable(e, "slice step")
            if sl.lower is None and sl.upper is not None:
                k, _ = self.expr(fn, sc, sl.upper, pre, Z)
                return f"(sliceTo {c} {k})", t
            if sl.upper is None and sl.lower is not None:
                k, _ = self.expr(fn, sc, sl.lower, pre, Z)
                return f"(sliceFrom {c} {k})", t
            raise Untranslatable(e, "slice form")
        if isinstance(sl, ast.Tuple) and len(sl.elts) == 2 and t == L(L(Z)) and ast.unparse(sl.elts[0]) == ":" or \
                (isinstance(sl, ast.Tuple) and len(sl.elts) == 2 and t == L(L(Z)) and isinstance(sl.elts[0], ast.Slice)
                 and sl.elts[0].lower is None and sl.elts[0].upper is None and sl.elts[0].step is None):
            col = ast.unparse(sl.elts[1])
            if col == ":-1":
                return f"(cols_but_last {c})", t
            if col == "1:":
                return f"(cols_from1 {c})", t
            raise Untranslatable(e, "column slice " + col)
        if isinstance(sl, ast.Tuple):
            if len(sl.elts) == 2 and t == L(L(Z)):
                (i, ti), (j, tj) = self._expr(fn, sc, sl.elts[0], pre), self._expr(fn, sc, sl.elts[1], pre)
                if ti == Z and tj == Z:
                    return f"(get2 {c} {i} {j})", Z
                if ti == L(Z) and tj == L(Z):
                    return f"(pick2 {c} {i} {j})", L(Z)       # m[rows, cols]: one element per (row, col) pair
            raise Untranslatable(e, "tuple index")
        i, ti = self._expr(fn, sc, sl, pre)
        if ti == Z:
            el = t[1]
            if el == Z:
                return f"(getZ {c} {i})", Z
            if el == Q:
                return f"(getQ {c} {i})", Q
            if el == B:
                return f"(getB {c} {i})", B
            if is_list(el):
                return f"(getR {c} {i})", el
        if ti == L(Z):
            if t == L(Z):
                return f"(gatherZ {c} {i})", L(Z)
            if t == L(Q):
                return f"(gatherQz {c} {i})", L(Q)
        if ti == L(Z) and is_list(t) and is_list(t[1]):
            return f"(gatherR {c} {i})", t          # rows picked by an index array (copies)
        if ti == L(L(Z)) and t == L(Q):
            return f"(gather2Q {c} {i})", L(L(Q))
        raise Untranslatable(e, f"index of type {ti} into {t}")

    def call(self, fn, sc, e, pre):
        f = e.func
        name = ast.unparse(f)
        # ---- builtins / numpy
        if name == "len" and len(e.args) == 1:
            c, t = self._expr(fn, sc, e.args[0], pre)
            if not is_list(t):
                raise Untranslatable(e, "len of a non-array")
            return f"(zlen {c})", Z
        if name in ("int", "np.int64"):
            a = e.args[0]
            if isinstance(a, ast.Call) and ast.unparse(a.func) == "np.floor":
                c, t = self.expr(fn, sc, a.args[0], pre, Q)
                return f"(Qfloor' {c})", Z
            c, t = self._expr(fn, sc, a, pre)
            if t == Z:
                return c, Z
            if t == Q:
                return f"(Qtrunc {c})", Z
            raise Untranslatable(e, "int() of " + str(t))
        if name in ("float", "np.float64"):
            c, t = self.expr(fn, sc, e.args[0], pre, Q)
            return c, Q
        if name in ("max", "min") and len(e.args) == 2:
            (a, ta), (b, tb) = self._expr(fn, sc, e.args[0], pre), self._expr(fn, sc, e.args[1], pre)
            if ta == Z and tb == Z:
                return f"(Z.{name} {a} {b})", Z
            a, b = self.coerce(a, ta, Q, e), self.coerce(b, tb, Q, e)
            return f"(Q{name}q {a} {b})", Q
        if isinstance(f, ast.Attribute) and f.attr == "copy" and not e.args:
            c, t = self._expr(fn, sc, f.value, pre)
            if not is_list(t):
                raise Untranslatable(e, "copy of a non-array")
            return c, t
        if isinstance(f, ast.Attribute) and f.attr == "reshape" and [ast.unparse(a) for a in e.args] == ["-1", "2"]:
            c, t = self._expr(fn, sc, f.value, pre)
            if t == L(Z):
                return f"(pairs2 {c})", L(L(Z))
            raise Untranslatable(e, "reshape of " + str(t))
        if isinstance(f, ast.Attribute) and f.attr == "clip" and len(e.args) == 2 and not e.keywords:
            c, t = self._expr(fn, sc, f.value, pre)
            lo, _ = self.expr(fn, sc, e.args[0], pre, Q)
            hi, _ = self.expr(fn, sc, e.args[1], pre, Q)
            if t == L(Q):
                return f"(vclip {lo} {hi} {c})", L(Q)
            raise Untranslatable(e, ".clip of " + str(t))
        if isinstance(f, ast.Attribute) and f.attr == "sum" and not e.args and not e.keywords:
            c, t = self._expr(fn, sc, f.value, pre)
            if t == L(Q):
                return f"(sumQ {c})", Q
            raise Untranslatable(e, ".sum() of " + str(t))
        if isinstance(f, ast.Attribute) and f.attr in ("max", "min") and not e.args and not e.keywords:
            c, t = self._expr(fn, sc, f.value, pre)
            if t == L(Q):
                return f"(Q{f.attr}_list {c})", Q
            raise Untranslatable(e, f".{f.attr}() of {t}")
        if name == "np.ones_like":
            kw = self._kwargs(e, ["a", "dtype"])
            c, t = self._expr(fn, sc, kw["a"], pre)
            if t == L(Q) and self._dtype(kw.get("dtype")) == Q:
                return f"(onesQ (zlen {c}))", L(Q)
            raise Untranslatable(e, "ones_like of " + str(t))
        if isinstance(f, ast.Attribute) and f.attr == "astype" and len(e.args) == 1:
            c, t = self._expr(fn, sc, f.value, pre)
            want = self._dtype(e.args[0])
            if t == L(B) and want == Z:        # produced by eqmaskZ (already 0/1 ints)
                return c, L(Z)
            if t == L(Z) and want == Z or t == L(Q) and want == Q or t == L(L(Z)) and want == Z:
                return c, t
            raise Untranslatable(e, f"astype {t} -> {want}")
        if name in ("np.empty", "np.zeros"):
            kw = self._kwargs(e, ["shape", "dtype"])
            dt = self._dtype(kw.get("dtype"))
            sh = kw["shape"]
            if isinstance(sh, ast.Tuple):
                if len(sh.elts) == 2 and dt == Z:
                    r, _ = self.expr(fn, sc, sh.elts[0], pre, Z)
                    cc, _ = self.expr(fn, sc, sh.elts[1], pre, Z)
                    return f"(zeros2 {r} {cc})", L(L(Z))
                raise Untranslatable(e, "shape tuple")
            n, _ = self.expr(fn, sc, sh, pre, Z)
            return (f"(zerosZ {n})", L(Z)) if dt == Z else (f"(zerosQ {n})", L(Q))
        if name == "np.empty_like" and len(e.args) == 1:
            c, t = self._expr(fn, sc, e.args[0], pre)
            if t == L(Z):
                return f"(zerosZ (zlen {c}))", t
            if t == L(Q):
                return f"(zerosQ (zlen {c}))", t
            raise Untranslatable(e, "empty_like of " + str(t))
        if name == "np.arange":
            kw = self._kwargs(e, ["stop", "dtype"])
            if self._dtype(kw.get("dtype", ast.parse("np.int64").body[0].value)) != Z:
                raise Untranslatable(e, "arange dtype")
            n, _ = self.expr(fn, sc, kw["stop"], pre, Z)
            return f"(arange {n})", L(Z)
        if name == "np.array" and len(e.args) == 1:
            c, t = self._expr(fn, sc, e.args[0], pre)
            dt = self._dtype(next((k.value for k in e.keywords if k.arg == "dtype"), None))
            if t == L(Z) and dt == Z:
                return c, t
            raise Untranslatable(e, "np.array of " + str(t))
        if name == "np.cumsum" and len(e.args) == 1:
            c, _ = self.expr(fn, sc, e.args[0], pre, L(Q))
            return f"(cumsum {c})", L(Q)
        if name == "np.argmax" and len(e.args) == 1 and [(k.arg, ast.unparse(k.value)) for k in e.keywords] == [("axis", "1")]:
            c, t = self._expr(fn, sc, e.args[0], pre)
            if t == L(L(Q)):
                return f"(argmax_rows {c})", L(Z)
            raise Untranslatable(e, "argmax(axis=1) of " + str(t))
        if name == "np.argmax" and len(e.args) == 1 and not e.keywords:
            c, _ = self.expr(fn, sc, e.args[0], pre, L(Q))
            return f"(argmaxZ {c})", Z
        if name == "sorted" and len(e.args) == 1:
            c, _ = self.expr(fn, sc, e.args[0], pre, L(Z))
            return f"(sortedZ {c})", L(Z)
        if name == "np.unique" and len(e.args) == 1:
            c, _ = self.expr(fn, sc, e.args[0], pre, L(Z))
            return f"(uniqueZ {c})", L(Z)
        if name == "np.mean" and len(e.args) == 1:
            c, t = self._expr(fn, sc, e.args[0], pre)
            if t == L(Z):
                return f"(meanZ {c})", Q
            if t == L(Q):
                return f"(meanQ {c})", Q
            raise Untranslatable(e, "mean of " + str(t))
        if name == "np.flip" and len(e.args) == 1 and not e.keywords:
            c, t = self._expr(fn, sc, e.args[0], pre)
            if is_list(t) and not is_list(t[1]):
                return f"(rev {c})", t
            raise Untranslatable(e, "flip of " + str(t))
        if name == "np.dot" and len(e.args) == 2 and not e.keywords:
            (a, ta), (b, tb) = self._expr(fn, sc, e.args[0], pre), self._expr(fn, sc, e.args[1], pre)
            if ta == L(L(Z)) and tb == L(Z):
                return f"(matvecZ {a} {b})", L(Z)
            raise Untranslatable(e, f"dot of {ta}, {tb}")
        if name == "np.logical_xor.accumulate" and len(e.args) == 1 and [(k.arg, ast.unparse(k.value)) for k in e.keywords] == [("axis", "-1")]:
            c, t = self._expr(fn, sc, e.args[0], pre)
            if t == L(L(Z)):
                return f"(xor_accumulate_rows {c})", L(L(Z))
            raise Untranslatable(e, "xor.accumulate of " + str(t))
        if name == "np.logical_xor" and len(e.args) == 2 and not e.keywords:
            (a, ta), (b, tb) = self._expr(fn, sc, e.args[0], pre), self._expr(fn, sc, e.args[1], pre)
            if ta == L(L(Z)) and tb == L(L(Z)):
                return f"(logical_xor2 {a} {b})", L(L(Z))
            raise Untranslatable(e, f"logical_xor of {ta}, {tb}")
        if name == "np.hstack" and len(e.args) == 1 and isinstance(e.args[0], ast.List) and len(e.args[0].elts) == 2:
            first, second = e.args[0].elts
            # np.hstack([m[:, 0].reshape(-1, 1), rest]): the first column of m in front of every row of rest
            if isinstance(first, ast.Call) and isinstance(first.func, ast.Attribute) and first.func.attr == "reshape" \
                    and [ast.unparse(a_) for a_ in first.args] == ["-1", "1"] and isinstance(first.func.value, ast.Subscript) \
                    and ast.unparse(first.func.value.slice) in ("(:, 0)", ":, 0"):
                m_, tm = self._expr(fn, sc, first.func.value.value, pre)
                r_, tr = self._expr(fn, sc, second, pre)
                if tm == L(L(Z)) and tr == L(L(Z)):
                    return f"(hstack_col0 {m_} {r_})", L(L(Z))
            raise Untranslatable(e, "hstack form")
        if name == "np.append" and len(e.args) == 2 and [(k.arg, ast.unparse(k.value)) for k in e.keywords] == [("axis", "0")]:
            (a, ta), (b, tb) = self._expr(fn, sc, e.args[0], pre), self._expr(fn, sc, e.args[1], pre)
            if ta == tb and is_list(ta) and is_list(ta[1]):
                return f"({a} ++ {b})", ta
            raise Untranslatable(e, f"np.append(axis=0) of {ta}, {tb}")
        if name == "np.power" and len(e.args) == 2 and isinstance(e.args[1], ast.Constant) and type(e.args[1].value) is int and e.args[1].value >= 0:
            c, t = self._expr(fn, sc, e.args[0], pre)
            if t == L(Q):
                return f"(vpow {c} {e.args[1].value})", L(Q)
            raise Untranslatable(e, "power of " + str(t))
        if name == "np.sum" and len(e.args) == 1:
            c, t = self._expr(fn, sc, e.args[0], pre)
            if t == L(B):
                return f"(countB {c})", Z
            if t == L(Z):
                return f"(sumZ {c})", Z
            if t == L(Q):
                return f"(sumQ {c})", Q
            raise Untranslatable(e, "sum of " + str(t))
        # ---- primitive draws
        if name == "random.random" and not e.args:
            return self.eff(fn, pre, "popU", Q, e)
        if name == "np.random.randint":
            kw = self._kwargs(e, ["low", "high"])
            if not (isinstance(kw["low"], ast.Constant) and kw["low"].value == 0):
                raise Untranslatable(e, "randint with a lower bound other than 0")
            n, _ = self.expr(fn, sc, kw["high"], pre, Z)
            return self.eff(fn, pre, f"(popI {n})", Z, e)
        if name == "np.random.uniform":
            kw = self._kwargs(e, ["low", "high", "size"])
            # the bounds are evaluated (they may be effect-free only); the draws are logged after the affine map
            for k in ("low", "high"):
                sub = []
                self._expr(fn, sc, kw[k], sub)
                if sub:
                    raise Untranslatable(e, "effectful bound of uniform")
            n, _ = self.expr(fn, sc, kw["size"], pre, Z)
            return self.eff(fn, pre, f"(popXs {n})", L(Q), e)
        if name in ("cauchy_distribution", "np.random.normal"):
            # real-valued primitives: n results, each logged after the affine map loc + scale*x (Draws convention, DESIGN §4);
            # loc / scale are evaluated (effect-free only)
            kw = self._kwargs(e, ["loc", "scale", "size"])
            for k in ("loc", "scale"):
                sub = []
                self._expr(fn, sc, kw[k], sub)
                if sub:
                    raise Untranslatable(e, "effectful argument of a real-valued primitive")
            n, _ = self.expr(fn, sc, kw["size"], pre, Z)
            return self.eff(fn, pre, f"(popXs {n})", L(Q), e)
        # ---- a function-valued parameter (the configured strategy): applied to its arguments, effects threaded
        if isinstance(f, ast.Name) and isinstance(sc.env.get(f.id), tuple) and sc.env[f.id][0] == "F":
            _, _, fret, fargs = sc.env[f.id]
            if e.keywords or len(e.args) != len(fargs):
                raise Untranslatable(e, "call shape of the strategy function")
            cs = [self.expr(fn, sc, a_, pre, t_)[0] for a_, t_ in zip(e.args, fargs)]
            return self.eff(fn, pre, "(" + cname(f.id) + " " + " ".join(cs) + ")", fret, e)
        # ---- translated functions
        if isinstance(f, ast.Name) and f.id in self.funcs:
            info = self.funcs[f.id]
            kw = self._kwargs(e, info["params"])
            args = []
            for p, t in zip(info["params"], info["arg_ts"]):
                if p not in kw:
                    raise Untranslatable(e, f"argument {p} of {f.id} not given (defaults are not supported)")
                c, _ = self.expr(fn, sc, kw[p], pre, t)
                args.append(c)
            app = "(py_" + f.id + " " + " ".join(args) + ")"
            if info["monadic"]:
                return self.eff(fn, pre, app, info["ret_t"], e)
            return app, info["ret_t"]
        raise Untranslatable(e, "call of " + name)

    # ------------------------------------------------------------------ statements
    def is_alloc(self, e):
        """does evaluating e yield an array nobody else refers to"""
        if isinstance(e, ast.Call):
            n = ast.unparse(e.func)
            if isinstance(e.func, ast.Attribute) and e.func.attr in ("copy", "astype"):
                return True
            if n in ("np.empty", "np.zeros", "np.empty_like", "np.arange", "np.cumsum", "sorted", "np.unique", "np.ones_like"):
                return True
            if isinstance(e.func, ast.Attribute) and e.func.attr == "clip":
                return True
            if n in ("np.append", "np.dot", "np.flip", "np.hstack", "np.logical_xor", "np.logical_xor.accumulate"):
                return True
            if isinstance(e.func, ast.Name) and e.func.id in self.funcs:
                return self.funcs[e.func.id]["returns_fresh"]
        if isinstance(e, (ast.BinOp, ast.List)):
            return True
        return False

    def wrap_pre(self, pre, body):
        for tmp, m in reversed(pre):
            body = f"bind {m} (fun {tmp} =>\n{body})"
        return body

    def block(self, fn: Fn, sc: Scope, stmts, fin, loop=None):
        """code of a statement list.  fin(sc) -> code that ends the block normally;
        loop = dict(cont=fin-like, brk=fin-like) inside a loop body"""
        if not stmts:
            return fin(sc)
        s, rest = stmts[0], stmts[1:]
        if isinstance(s, ast.Expr) and isinstance(s.value, ast.Constant):
            return self.block(fn, sc, rest, fin, loop)
        if isinstance(s, ast.Pass):
            return self.block(fn, sc, rest, fin, loop)
        if isinstance(s, ast.AnnAssign) and s.value is None:
            return self.block(fn, sc, rest, fin, loop)
        if isinstance(s, ast.Return):
            if loop is not None:
                raise Untranslatable(s, "return inside a loop")
            pre = []
            c, _ = self.expr(fn, sc, s.value, pre, fn.ret_t)
            fn.returns_fresh = fn.returns_fresh and (not is_list(fn.ret_t) or (isinstance(s.value, ast.Name) and s.value.id in sc.fresh) or self.is_alloc(s.value))
            return self.wrap_pre(pre, f"ret {c}" if fn.monadic else c)
        if isinstance(s, ast.Continue):
            if loop is None:
                raise Untranslatable(s, "continue outside a loop")
            return loop["cont"](sc)
        if isinstance(s, ast.Break):
            if loop is None or loop.get("brk") is None:
                raise Untranslatable(s, "break outside a for loop")
            return loop["brk"](sc)
        if isinstance(s, ast.Raise):
            if not fn.monadic:
                raise NeedsMonad()
            return "fail"                 # the exception leaves the function: no result (Py.fail)
        if isinstance(s, ast.Assert):
            if not fn.monadic:
                raise NeedsMonad()
            pre = []
            c, _ = self.expr(fn, sc, s.test, pre, B)
            return self.wrap_pre(pre, f"bind (guard {c}) (fun _ =>\n{self.block(fn, sc, rest, fin, loop)})")
        if isinstance(s, ast.AugAssign):
            new = ast.Assign(targets=[s.target], value=ast.BinOp(left=self._as_load(s.target), op=s.op, right=s.value), lineno=s.lineno)
            ast.fix_missing_locations(new)
            return self.block(fn, sc, [new] + rest, fin, loop)
        if isinstance(s, ast.Expr) and isinstance(s.value, ast.Call) and isinstance(s.value.func, ast.Attribute) \
                and isinstance(s.value.func.value, ast.Name) and s.value.func.attr in ("pop", "append"):
            x = s.value.func.value.id
            if x not in sc.fresh or sc.env.get(x) != L(Z):
                raise Untranslatable(s, f"{s.value.func.attr} on '{x}', which is not a list this function created")
            sc = sc.copy()
            if s.value.func.attr == "pop":
                if s.value.args:
                    raise Untranslatable(s, "pop with an argument")
                return self.let(x, f"removelast {cname(x)}", self.block(fn, sc, rest, fin, loop))
            pre = []
            v, _ = self.expr(fn, sc, s.value.args[0], pre, Z)
            return self.wrap_pre(pre, self.let(x, f"({cname(x)} ++ [{v}])", self.block(fn, sc, rest, fin, loop)))
        if isinstance(s, (ast.Assign, ast.AnnAssign)) and s.value is not None:
            # v = ... x.pop() ... : the popped element is read first, then the list shrinks
            pops = [n for n in ast.walk(s.value) if isinstance(n, ast.Call) and isinstance(n.func, ast.Attribute) and n.func.attr == "pop"
                    and isinstance(n.func.value, ast.Name) and not n.args]
            if pops:
                if len(pops) != 1:
                    raise Untranslatable(s, "more than one pop in an expression")
                x = pops[0].func.value.id
                if x not in sc.fresh or sc.env.get(x) != L(Z):
                    raise Untranslatable(s, f"pop on '{x}', which is not a list this function created")
                tmp = fn.fresh_tmp("p")
                sc = sc.copy()
                sc.env[tmp] = Z

                class Repl(ast.NodeTransformer):
                    def visit_Call(self_, n):
                        return ast.copy_location(ast.Name(id=tmp, ctx=ast.Load()), n) if n is pops[0] else self_.generic_visit(n)
                import copy as _copy
                s2 = _copy.deepcopy(s)
                # locate the same node in the copy by position
                target_dump = ast.dump(pops[0])

                class Repl2(ast.NodeTransformer):
                    def visit_Call(self_, n):
                        return ast.copy_location(ast.Name(id=tmp, ctx=ast.Load()), n) if ast.dump(n) == target_dump else self_.generic_visit(n)
                s2 = ast.fix_missing_locations(Repl2().visit(s2))
                body = self.block(fn, sc, [s2] + rest, fin, loop)
                # the shrink happens before the rest of the statement is evaluated only in its effect on x: x is not read elsewhere in the value
                if any(isinstance(n, ast.Name) and n.id == x for n in ast.walk(s2.value)):
                    raise Untranslatable(s, "the popped list is also read in the same expression")
                return f"let {tmp} := last {cname(x)} 0 in\nlet {cname(x)} := removelast {cname(x)} in\n{body}"
        if isinstance(s, (ast.Assign, ast.AnnAssign)):
            targets = s.targets if isinstance(s, ast.Assign) else [s.target]
            if len(targets) != 1:
                raise Untranslatable(s, "multiple assignment targets")
            return self.assign(fn, sc, targets[0], s.value, s, rest, fin, loop)
        if isinstance(s, ast.If):
            return self.if_stmt(fn, sc, s, rest, fin, loop)
        if isinstance(s, ast.For):
            return self.for_stmt(fn, sc, s, rest, fin, loop)
        if isinstance(s, ast.While):
            return self.while_stmt(fn, sc, s, rest, fin, loop)
        raise Untranslatable(s, "statement " + type(s).__name__)

    def _as_load(self, t):
        t2 = ast.parse(ast.unparse(t)).body[0].value
        return t2

    def let(self, var, code, body):
        return f"let {cname(var)} := {code} in\n{body}"

    def bind_name(self, sc, var, t, node, fresh):
        sc.env[var] = t      # a re-binding may change the type (Gallina shadowing); loop states and if-joins check types themselves
        sc.poisoned.discard(var)
        if fresh:
            sc.fresh.add(var)
        else:
            sc.fresh.discard(var)

    def assign(self, fn, sc, target, value, s, rest, fin, loop):
        sc = sc.copy()
        pre = []
        if isinstance(target, ast.Name):
            if isinstance(value, ast.Tuple):
                raise Untranslatable(s, "tuple value")
            c, t = self._expr(fn, sc, value, pre)
            if t == B and isinstance(value, ast.Compare) and c.startswith("(eqmaskZ"):
                t = L(B)
            if t == Z and sc.env.get(target.id) == Q and target.id not in sc.poisoned:
                c, t = f"(ZtoQ {c})", Q          # an int stored into a float variable (numba unifies the type to float64)
            fresh = is_list(t) and self.is_alloc(value)
            if is_list(t) and isinstance(value, ast.Name):
                sc.fresh.discard(value.id)         # alias: neither name may be stored into any more
            self.bind_name(sc, target.id, t, s, fresh)
            return self.wrap_pre(pre, self.let(target.id, c, self.block(fn, sc, rest, fin, loop)))
        if isinstance(target, ast.Subscript):
            base = target.value
            if not isinstance(base, ast.Name):
                raise Untranslatable(s, "store through a compound base")
            if base.id not in sc.fresh:
                raise Untranslatable(s, f"store into '{base.id}', which this function did not allocate (parameter, view or alias)")
            t = sc.env[base.id]
            sl = target.slice
            if isinstance(sl, ast.Tuple):
                if not (len(sl.elts) == 2 and t == L(L(Z))):
                    raise Untranslatable(s, "2-D store")
                i, _ = self.expr(fn, sc, sl.elts[0], pre, Z)
                j, _ = self.expr(fn, sc, sl.elts[1], pre, Z)
                v, _ = self.expr(fn, sc, value, pre, Z)
                code = f"set2 {cname(base.id)} {i} {j} {v}"
            elif isinstance(sl, ast.Name) and sc.env.get(sl.id) == L(B) and t == L(Q):
                # a[mask] = <array with one element per True of the mask>
                v, _ = self.expr(fn, sc, value, pre, L(Q))
                code = f"mask_scatter {cname(sl.id)} {cname(base.id)} {v}"
            else:
                if isinstance(sl, ast.Slice):
                    raise Untranslatable(s, "slice store")
                i, _ = self.expr(fn, sc, sl, pre, Z)
                v, _ = self.expr(fn, sc, value, pre, t[1])
                code = f"setA {cname(base.id)} {i} {v}"
            return self.wrap_pre(pre, self.let(base.id, code, self.block(fn, sc, rest, fin, loop)))
        if isinstance(target, ast.Tuple):
            # a, b = <array>      or      x[i], x[j] = x[j], x[i]
            if isinstance(value, ast.Tuple):
                if len(value.elts) != len(target.elts):
                    raise Untranslatable(s, "tuple arity")
                tmps, body_stmts = [], []
                code_lets = []
                for v in value.elts:
                    c, t = self._expr(fn, sc, v, pre)
                    tmp = fn.fresh_tmp("v")
                    sc.env[tmp] = t
                    tmps.append(tmp)
                    code_lets.append((tmp, c))
                for tg, tmp in zip(target.elts, tmps):
                    a = ast.Assign(targets=[tg], value=ast.Name(id=tmp, ctx=ast.Load()), lineno=s.lineno)
                    ast.fix_missing_locations(a)
                    body_stmts.append(a)
                # temporaries hold scalars here (element swap); aliasing of arrays through them is rejected
                for tmp, (_, c), v in zip(tmps, code_lets, value.elts):
                    if is_list(sc.env[tmp]) and not (isinstance(v, ast.Call) and isinstance(v.func, ast.Attribute) and v.func.attr == "copy" and not v.args):
                        raise Untranslatable(s, "tuple assignment of arrays (other than fresh .copy() values)")
                body = self.block(fn, sc, body_stmts + rest, fin, loop)
                for tmp, c in reversed(code_lets):
                    body = self.let(tmp, c, body)
                return self.wrap_pre(pre, body)
            if isinstance(value, ast.Attribute) and value.attr == "shape" and len(target.elts) == 2 and all(isinstance(x, ast.Name) for x in target.elts):
                c, t = self._expr(fn, sc, value.value, pre)
                if is_list(t) and is_list(t[1]):
                    self.bind_name(sc, target.elts[0].id, Z, s, False)
                    self.bind_name(sc, target.elts[1].id, Z, s, False)
                    body = self.block(fn, sc, rest, fin, loop)
                    return self.wrap_pre(pre, self.let(target.elts[0].id, f"(zlen {c})", self.let(target.elts[1].id, f"(zlen (getR {c} 0))", body)))
                raise Untranslatable(s, "shape of a non-2-D value")
            c, t = self._expr(fn, sc, value, pre)
            if not (is_list(t) and not is_list(t[1])):
                raise Untranslatable(s, "unpacking of a non-1-D value")
            tmp = fn.fresh_tmp("u")
            get = {Z: "getZ", Q: "getQ", B: "getB"}[t[1]]
            body_sc = sc
            names = []
            for k, tg in enumerate(target.elts):
                if not isinstance(tg, ast.Name):
                    raise Untranslatable(s, "unpacking target")
                self.bind_name(body_sc, tg.id, t[1], s, False)
                names.append((tg.id, f"{get} {tmp} {k}"))
            body = self.block(fn, body_sc, rest, fin, loop)
            for nme, code in reversed(names):
                body = self.let(nme, code, body)
            # unpacking also asserts the length (numba raises otherwise): modelled by guard in monadic code
            return self.wrap_pre(pre, f"let {tmp} := {c} in\n{body}")
        raise Untranslatable(s, "assignment target")

    def join_vars(self, sc, a_stmts, b_stmts):
        aa, bb = assigned_vars(a_stmts), assigned_vars(b_stmts)
        outs = [v for v in aa + [x for x in bb if x not in aa]
                if (v in sc.env and v not in sc.poisoned) or (v in aa and v in bb)]
        local = [v for v in aa + bb if v not in outs]
        return outs, local

    def if_stmt(self, fn, sc, s, rest, fin, loop):
        pre = []
        c, t = self._expr(fn, sc, s.test, pre)
        if t == Z:
            c, t = f"(negb ({c} =? 0))", B
        if t != B:
            raise Untranslatable(s, "condition of type " + str(t))
        if has_flow(s.body) or has_flow(s.orelse):
            a = self.block(fn, sc.copy(), list(s.body) + rest, fin, loop)
            b = self.block(fn, sc.copy(), list(s.orelse) + rest, fin, loop)
            return self.wrap_pre(pre, f"if {c} then (\n{a})\nelse (\n{b})")
        outs, local = self.join_vars(sc, s.body, s.orelse)
        return self._if_join(fn, sc, s, rest, fin, loop, pre, c, outs, local)

    def _if_join(self, fn, sc, s, rest, fin, loop, pre, c, outs, local):
        types = {}

        def branch(stmts, mon_here):
            bsc = sc.copy()

            def bfin(x):
                for v in outs:
                    if v not in x.env or v in x.poisoned:
                        if v not in sc.env or v in sc.poisoned:
                            raise NotJoined(v)         # e.g. a loop variable used in both branches: local to each
                        raise Untranslatable(s, f"'{v}' is not assigned on every path")
                    types.setdefault(v, x.env[v])
                    if types[v] != x.env[v]:
                        raise Untranslatable(s, f"'{v}' has different types in the branches")
                fr = frozenset(v for v in outs if v in x.fresh)
                fresh_sets.append(fr)
                return ("ret " if mon_here else "") + self.tup(outs)
            return self.block(fn, bsc, stmts, bfin, None if loop is None else dict(cont=None, brk=None))

        def attempt(monadic_here):
            saved = fn.monadic
            fn.monadic = monadic_here
            try:
                fresh_sets.clear()
                return branch(list(s.body), monadic_here), branch(list(s.orelse), monadic_here)
            finally:
                fn.monadic = saved

        fresh_sets = []
        try:
            try:
                a, b = attempt(False)
                mon = False
            except NeedsMonad:
                if not fn.monadic:
                    raise
                a, b = attempt(True)
                mon = True
        except NotJoined as nj:
            return self._if_join(fn, sc, s, rest, fin, loop, pre, c, [v for v in outs if v != nj.var], local + [nj.var])
        nsc = sc.copy()
        for v in outs:
            nsc.env[v] = types[v]
            nsc.poisoned.discard(v)
            if all(v in fs for fs in fresh_sets):
                nsc.fresh.add(v)
            else:
                nsc.fresh.discard(v)
        for v in local:
            nsc.poisoned.add(v)
            nsc.env.setdefault(v, Z)
        body = self.block(fn, nsc, rest, fin, loop)
        if not outs:
            if mon:
                return self.wrap_pre(pre, f"bind (if {c} then (\n{a})\nelse (\n{b})) (fun _ =>\n{body})")
            return self.wrap_pre(pre, body)       # branches without effect and without outputs
        if mon:
            return self.wrap_pre(pre, f"bind (if {c} then (\n{a})\nelse (\n{b})) (fun {self.pat(outs)} =>\n{body})")
        return self.wrap_pre(pre, f"let {self.pat(outs)} := (if {c} then (\n{a})\nelse (\n{b})) in\n{body}")

    def loop_state(self, sc, body_stmts, extra_exclude=()):
        av = assigned_vars(body_stmts)
        state = [v for v in av if v in sc.env and v not in sc.poisoned and v not in extra_exclude]
        local = [v for v in av if v not in state and v not in extra_exclude]
        return state, local

    def for_stmt(self, fn, sc, s, rest, fin, loop):
        if s.orelse:
            raise Untranslatable(s, "for-else")
        pre = []
        it = s.iter
        kind = None
        if (isinstance(it, ast.Call) and ast.unparse(it.func) == "zip" and len(it.args) == 2 and isinstance(s.target, ast.Tuple)
                and all(isinstance(a, ast.Name) for a in it.args) and all(isinstance(t, ast.Name) for t in s.target.elts)):
            # for a, b in zip(x, y):  ==  for k in range(min(len(x), len(y))): a = x[k]; b = y[k]
            k = fn.fresh_tmp("k")
            x, y = it.args[0].id, it.args[1].id
            a, b = (t.id for t in s.target.elts)
            new = ast.parse(f"for {k} in range(min(len({x}), len({y}))):\n    {a} = {x}[{k}]\n    {b} = {y}[{k}]\n").body[0]
            new.body.extend(s.body)
            ast.copy_location(new, s)
            for n in ast.walk(new):
                if not hasattr(n, "lineno"):
                    n.lineno = s.lineno
            ast.fix_missing_locations(new)
            return self.for_stmt(fn, sc, new, rest, fin, loop)
        if not isinstance(s.target, ast.Name):
            raise Untranslatable(s, "loop target")
        var = s.target.id
        if var in sc.env and var not in sc.poisoned:
            raise Untranslatable(s, f"loop variable '{var}' shadows a live variable")
        if isinstance(it, ast.Call) and ast.unparse(it.func) == "range":
            a = it.args
            if len(a) == 1:
                lo, hi, kind = "0", self.expr(fn, sc, a[0], pre, Z)[0], "up"
            elif len(a) == 2:
                lo, hi, kind = self.expr(fn, sc, a[0], pre, Z)[0], self.expr(fn, sc, a[1], pre, Z)[0], "up"
            elif len(a) == 3 and isinstance(a[2], ast.UnaryOp) and isinstance(a[2].op, ast.USub) and isinstance(a[2].operand, ast.Constant) and a[2].operand.value == 1:
                lo, hi, kind = self.expr(fn, sc, a[0], pre, Z)[0], self.expr(fn, sc, a[1], pre, Z)[0], "down"
            else:
                raise Untranslatable(s, "range form")
        else:
            sub = []
            lc, lt = self._expr(fn, sc, it, sub)
            if sub or lt != L(Z):
                raise Untranslatable(s, "iteration over " + ast.unparse(it)[:40])
            kind, lo, hi = "list", lc, ""
        state, local = self.loop_state(sc, s.body, (var,))
        brk = has_break(s.body)
        if brk and kind == "down":
            raise Untranslatable(s, "break in a downward loop")

        def attempt(mon):
            saved = fn.monadic
            fn.monadic = mon
            try:
                bsc = sc.copy()
                bsc.env[var] = Z
                bsc.poisoned.discard(var)

                def endfin(flag):
                    def f(x):
                        for v in state:
                            if x.env.get(v) != sc.env[v]:
                                raise Untranslatable(s, f"loop changes the type of '{v}'")
                        val = self.tup(state)
                        if brk:
                            val = f"({val}, {flag})"
                        return ("ret " if mon else "") + val
                    return f
                return self.block(fn, bsc, list(s.body), endfin("false"), dict(cont=endfin("false"), brk=endfin("true") if brk else None))
            finally:
                fn.monadic = saved

        try:
            body = attempt(False)
            mon = False
        except NeedsMonad:
            if not fn.monadic:
                raise
            body = attempt(True)
            mon = True
        if brk and mon:
            raise Untranslatable(s, "break in a loop with effects")
        if kind == "list" and not brk and not mon:
            body = f"({body}, false)"
        comb = {("up", False, False): "for_range_p", ("up", True, False): "for_brk_p", ("up", False, True): "for_range",
                ("down", False, True): "for_down", ("list", True, False): "for_list_brk_p", ("list", False, False): "for_list_brk_p"}.get((kind, brk, mon))
        if comb is None:
            raise Untranslatable(s, "loop kind")
        nsc = sc.copy()
        for v in local + [var]:
            nsc.poisoned.add(v)
            nsc.env.setdefault(v, Z)
        # arrays stored into inside the loop stay fresh (stores are only accepted on fresh arrays)
        after = self.block(fn, nsc, rest, fin, loop)
        call = f"{comb} {lo} {hi if kind != 'list' else 'tt'} {self.tup(state)} (fun {cname(var)} {self.pat(state)} =>\n{body})"
        if mon:
            return self.wrap_pre(pre, f"bind ({call}) (fun {self.pat(state)} =>\n{after})")
        return self.wrap_pre(pre, f"let {self.pat(state)} := {call} in\n{after}")

    def while_stmt(self, fn, sc, s, rest, fin, loop):
        if s.orelse:
            raise Untranslatable(s, "while-else")
        if not fn.monadic:
            raise NeedsMonad()
        if has_break(s.body):
            raise Untranslatable(s, "break in a while loop")
        state, local = self.loop_state(sc, s.body)
        csc = sc.copy()
        pre = []
        c, t = self._expr(fn, csc, s.test, pre)
        if pre:
            raise Untranslatable(s, "effectful loop condition")
        if t == Z:
            c, t = f"(negb ({c} =? 0))", B
        if t != B:
            raise Untranslatable(s, "loop condition type")

        def endfin(x):
            for v in state:
                if x.env.get(v) != sc.env[v]:
                    raise Untranslatable(s, f"loop changes the type of '{v}'")
            return "ret " + self.tup(state)
        body = self.block(fn, sc.copy(), list(s.body), endfin, dict(cont=endfin, brk=None))
        nsc = sc.copy()
        for v in local:
            nsc.poisoned.add(v)
            nsc.env.setdefault(v, Z)
        after = self.block(fn, nsc, rest, fin, loop)
        fuel = WHILE_FUEL.get(fn.name, "O")
        return (f"bind (while_ds ({fuel}) {self.tup(state)} (fun {self.pat(state)} => {c}) (fun {self.pat(state)} =>\n{body}))"
                f" (fun {self.pat(state)} =>\n{after})")

    # ------------------------------------------------------------------ functions
    def function(self, node, module):
        sig = None
        for d in node.decorator_list:
            if isinstance(d, ast.Call) and ast.unparse(d.func) == "njit" and d.args:
                sig = d.args[0]
        if node.name in MANUAL_PARSED:
            ret_t, arg_ts = MANUAL_PARSED[node.name]
        else:
            if sig is None:
                if node.name not in MANUAL_SIGS:
                    raise Untranslatable(node, "no njit signature and no manual signature")
                sig = ast.parse(MANUAL_SIGS[node.name]).body[0].value
            ret_t, arg_ts = parse_sig(sig)
        fn = Fn(self, node, ret_t, arg_ts)
        if node.args.vararg or node.args.kwarg or node.args.kwonlyargs:
            raise Untranslatable(node, "parameter kinds")

        def attempt(mon):
            fn.monadic = mon
            fn.tmp = 0
            fn.returns_fresh = True
            sc = Scope({p: t for p, t in zip(fn.params, arg_ts)})

            def fin(x):
                raise Untranslatable(node, "control reaches the end of the function without return")
            return self.block(fn, sc, list(node.body), fin, None)

        try:
            body = attempt(False)
            mon = False
        except NeedsMonad:
            body = attempt(True)
            mon = True
        params = " ".join(f"({cname(p)} : {coq_type(t)})" for p, t in zip(fn.params, arg_ts))
        rt = coq_type(ret_t)
        rt = f"M ({rt})" if mon and " " in rt else (f"M {rt}" if mon else rt)
        text = f"Definition py_{node.name} {params} : {rt} :=\n{body}."
        self.funcs[node.name] = dict(ret_t=ret_t, arg_ts=arg_ts, params=fn.params, monadic=mon, returns_fresh=fn.returns_fresh)
        return text

    def run(self):
        for rel, names in TARGETS:
            path = os.path.join(self.src_root, "thefittest", rel)
            try:
                mod = ast.parse(open(path).read())
            except Exception as ex:      # the whole module is unreadable
                for n in names:
                    self.out.append((n, None, f"module does not parse: {ex}", rel, 0))
                continue
            defs = {n.name: n for n in mod.body if isinstance(n, ast.FunctionDef)}
            for n in names:
                if n not in defs:
                    self.out.append((n, None, "function not found in " + rel, rel, 0))
                    continue
                try:
                    self.out.append((n, self.function(defs[n], rel), None, rel, defs[n].lineno))
                except Untranslatable as ex:
                    self.out.append((n, None, str(ex), rel, defs[n].lineno))
                except NeedsMonad:
                    self.out.append((n, None, "effect in a pure context", rel, defs[n].lineno))
        method_fields = {}
        for rel, cls, fname_, oname, sig, consts in METHOD_TARGETS:
            path = os.path.join(self.src_root, "thefittest", rel)
            line = 0
            try:
                mod = ast.parse(open(path).read())
                scope = mod.body
                if cls is not None:
                    cl = [n for n in mod.body if isinstance(n, ast.ClassDef) and n.name == cls]
                    if not cl:
                        raise Untranslatable(mod, f"class {cls} not found")
                    scope = cl[0].body
                fd = [n for n in scope if isinstance(n, ast.FunctionDef) and n.name == fname_]
                if not fd:
                    raise Untranslatable(mod, f"{fname_} not found in {rel}")
                line = fd[0].lineno
                if fname_ == "lehmer_mean" and [a.arg for a in fd[0].args.args] != list(CALL_POS["lehmer_mean"]):
                    raise Untranslatable(fd[0], "parameters of lehmer_mean changed")
                new, fields = specialise(fd[0], cls, oname, consts, method_fields)
                ret_t, arg_ts = parse_sig(ast.parse(sig).body[0].value)
                field_ts = [sig_type(ast.parse(SELF_FIELDS[cls][f_]).body[0].value) for f_ in fields]
                if oname in FUNC_LOCALS:
                    _, coq_t, fr, fa = FUNC_LOCALS[oname]
                    ftype = ("F", coq_t, sig_type(ast.parse(fr).body[0].value), tuple(sig_type(ast.parse(a_).body[0].value) for a_ in fa))
                    field_ts = [ftype] + field_ts
                if oname in POOL_LOCALS:
                    pts = []
                    for _, binds in POOL_LOCALS[oname]:
                        for _, t_ in binds:
                            if isinstance(t_, tuple):
                                pts.append(("F", t_[1], sig_type(ast.parse(t_[2]).body[0].value), tuple(sig_type(ast.parse(a_).body[0].value) for a_ in t_[3])))
                            else:
                                pts.append(sig_type(ast.parse(t_).body[0].value))
                    field_ts = pts + field_ts
                    arg_ts = []           # the selecting names are consumed by the pool look-ups
                MANUAL_PARSED[oname] = (ret_t, field_ts + arg_ts)
                self.out.append((oname, self.function(new, rel), None, rel, line))
                method_fields[(cls, fname_)] = (oname, fields)
            except Untranslatable as ex:
                self.out.append((oname, None, str(ex), rel, line))
            except NeedsMonad:
                self.out.append((oname, None, "effect in a pure context", rel, line))
            except Exception as ex:
                self.out.append((oname, None, f"{type(ex).__name__}: {ex}", rel, line))
        return self.out


def specialise(node, cls, out_name, consts, method_fields):
    """FunctionDef of a plain function / method -> FunctionDef named out_name over explicit parameters (see METHOD_TARGETS)"""
    import copy
    node = copy.deepcopy(node)
    params = [a.arg for a in node.args.args]
    used_fields = []
    is_static = any(isinstance(d_, ast.Name) and d_.id == "staticmethod" for d_ in node.decorator_list)
    if cls is not None and not is_static:
        if params[:1] != ["self"]:
            raise Untranslatable(node, "method without self")
        params = params[1:]
    for c in consts:
        if c not in params:
            raise Untranslatable(node, f"no parameter {c} to specialise")
    defaults = dict(zip([a.arg for a in node.args.args][len(node.args.args) - len(node.args.defaults):], node.args.defaults))
    for c, v in consts.items():
        # a specialised parameter the call sites do not pass takes its default: the default must be the constant
        if c in defaults and not (isinstance(defaults[c], ast.Constant) and defaults[c].value == v):
            raise Untranslatable(node, f"default of {c} is no longer {v!r}")
    kept = [p for p in params if p not in consts]

    class Rw(ast.NodeTransformer):
        def visit_Attribute(self_, n):
            if ast.unparse(n) == "self._thefittest._genotype" and isinstance(n.ctx, ast.Load) and cls is not None and "_thefittest_genotype" in SELF_FIELDS[cls]:
                if "_thefittest_genotype" not in used_fields:
                    used_fields.append("_thefittest_genotype")
                return ast.copy_location(ast.Name(id="self_thefittest_genotype", ctx=ast.Load()), n)
            if isinstance(n.value, ast.Name) and n.value.id == "self":
                if not isinstance(n.ctx, ast.Load):
                    raise Untranslatable(n, "store into self." + n.attr)
                if cls is None or n.attr not in SELF_FIELDS[cls]:
                    raise Untranslatable(n, f"self.{n.attr} is not a declared field")
                if n.attr not in used_fields:
                    used_fields.append(n.attr)
                return ast.copy_location(ast.Name(id="self" + n.attr, ctx=ast.Load()), n)
            return self_.generic_visit(n)

        def visit_Call(self_, n):
            if ast.unparse(n) == "cpu_count()" and cls is not None and "_cpu_count" in SELF_FIELDS[cls]:
                if "_cpu_count" not in used_fields:
                    used_fields.append("_cpu_count")
                return ast.copy_location(ast.Name(id="self_cpu_count", ctx=ast.Load()), n)
            # self._m(...)  ->  Class_m(<fields of the callee>, ...)
            if isinstance(n.func, ast.Attribute) and isinstance(n.func.value, ast.Name) and n.func.value.id == "self" \
                    and n.func.attr in STATIC_VIA_SELF and len(n.args) == STATIC_VIA_SELF[n.func.attr][1] and not n.keywords:
                return ast.copy_location(ast.Call(func=ast.Name(id=STATIC_VIA_SELF[n.func.attr][0], ctx=ast.Load()),
                                                  args=[self_.visit(a) for a in n.args], keywords=[]), n)
            if isinstance(n.func, ast.Attribute) and isinstance(n.func.value, ast.Name) and n.func.value.id == "self":
                key = (cls, n.func.attr)
                if key not in method_fields:
                    raise Untranslatable(n, f"call of the untranslated method self.{n.func.attr}")
                oname, fields = method_fields[key]
                for f_ in fields:
                    if f_ not in used_fields:
                        used_fields.append(f_)
                args = [ast.Name(id="self" + f_, ctx=ast.Load()) for f_ in fields] + [self_.visit(a) for a in n.args]
                kws = [ast.keyword(arg=k.arg, value=self_.visit(k.value)) for k in n.keywords]
                return ast.copy_location(ast.Call(func=ast.Name(id=oname, ctx=ast.Load()), args=args, keywords=kws), n)
            n = self_.generic_visit(n)
            if isinstance(n.func, ast.Name):
                given = tuple(sorted([k.arg for k in n.keywords]))
                for (callee, names), oname in CALL_SPECS.items():
                    if n.func.id == callee:
                        # positional arguments are named after the callee's parameters by the specialisation's own check (_kwargs)
                        pos = CALL_POS[callee][:len(n.args)]
                        if tuple(sorted(list(pos) + list(given))) == names:
                            kws = [ast.keyword(arg=a, value=v) for a, v in zip(pos, n.args)] + list(n.keywords)
                            return ast.copy_location(ast.Call(func=ast.Name(id=oname, ctx=ast.Load()), args=[], keywords=kws), n)
                if any(n.func.id == callee for (callee, _) in CALL_SPECS):
                    raise Untranslatable(n, f"call shape of {n.func.id} matches no specialisation")
            return n

        def visit_Name(self_, n):
            if n.id == "self":
                raise Untranslatable(n, "self used other than as self._field / self._method(...)")
            if n.id in live_consts:
                if not isinstance(n.ctx, ast.Load):
                    stored_now.add(n.id)         # from the next statement on it is an ordinary local
                    return n
                return ast.copy_location(ast.Constant(value=live_consts[n.id]), n)
            return n

    def fold(n):
        """constant folding after substitution"""
        class F(ast.NodeTransformer):
            def visit_Compare(self_, c):
                c = self_.generic_visit(c)
                if len(c.ops) == 1 and isinstance(c.ops[0], (ast.Is, ast.IsNot)) and isinstance(c.comparators[0], ast.Constant) \
                        and c.comparators[0].value is None:
                    val = None
                    if isinstance(c.left, ast.Constant):
                        val = c.left.value is None
                    elif isinstance(c.left, ast.Name) and c.left.id in kept:
                        val = False          # a parameter of the (non-Optional) signature of this specialisation
                    if val is not None:
                        return ast.copy_location(ast.Constant(value=val if isinstance(c.ops[0], ast.Is) else not val), c)
                return c

            def visit_BinOp(self_, b):
                b = self_.generic_visit(b)
                if isinstance(b.left, ast.Constant) and isinstance(b.right, ast.Constant) and type(b.left.value) is int and type(b.right.value) is int:
                    if isinstance(b.op, ast.Add):
                        return ast.copy_location(ast.Constant(value=b.left.value + b.right.value), b)
                    if isinstance(b.op, ast.Sub):
                        return ast.copy_location(ast.Constant(value=b.left.value - b.right.value), b)
                return b

            def visit_If(self_, i):
                i = self_.generic_visit(i)
                if isinstance(i.test, ast.Constant) and isinstance(i.test.value, bool):
                    return i.body if i.test.value else (i.orelse or [ast.Pass()])
                return i
        return F().visit(n)

    dict_param = DICT_PARAMS.get(out_name)

    class DictRw(ast.NodeTransformer):
        """dict -> value list in key order (see DICT_PARAMS)"""
        def visit_Call(self_, n):
            n = self_.generic_visit(n)
            src = ast.unparse(n)
            d = dict_param[0]
            if src in (f"np.array(list({d}.values()))", f"np.array(list({d}.values()), dtype=np.float64)"):
                return ast.copy_location(ast.parse(f"{d}.copy()").body[0].value, n)
            if isinstance(n.func, ast.Name) and n.func.id == "dict" and len(n.args) == 1 and isinstance(n.args[0], ast.Call) \
                    and ast.unparse(n.args[0].func) == "zip" and len(n.args[0].args) == 2 and ast.unparse(n.args[0].args[0]) == f"{d}.keys()":
                return n.args[0].args[1]          # dict(zip(d.keys(), values)): the same keys in the same order
            return n

        def visit_Return(self_, n):
            n = self_.generic_visit(n)
            return ast.copy_location(ast.Return(value=ast.Tuple(elts=[ast.Name(id=dict_param[0], ctx=ast.Load()), n.value], ctx=ast.Load())), n)

    body = []
    if dict_param is not None:
        body.append(ast.parse(f"{dict_param[0]} = {dict_param[0]}.copy()").body[0])
    func_local = FUNC_LOCALS.get(out_name)
    stmts_in = list(node.body)
    if func_local is not None:
        pinned = [st for st in stmts_in if ast.unparse(st) == func_local[0]]
        if len(pinned) != 1:
            raise Untranslatable(node, "the statement binding the strategy function is no longer: " + func_local[0])
        stmts_in = [st for st in stmts_in if st is not pinned[0]]
        fname_local = func_local[0].split(" = ")[0]
        for x in ast.walk(ast.Module(body=stmts_in, type_ignores=[])):
            if isinstance(x, ast.Name) and x.id == fname_local and not isinstance(x.ctx, ast.Load):
                raise Untranslatable(x, "the strategy function is re-bound")
    out_append = OUT_APPENDS.get(out_name)
    if out_append is not None:
        text_prefix = f"self.{out_append}.append("
        hits = [st for st in stmts_in if isinstance(st, ast.Expr) and ast.unparse(st).startswith(text_prefix)]
        if len(hits) != 1 or len(hits[0].value.args) != 1 or hits[0].value.keywords:
            raise Untranslatable(node, f"expected exactly one top-level statement self.{out_append}.append(<value>)")
        k_ = stmts_in.index(hits[0])
        stmts_in[k_] = ast.copy_location(ast.Assign(targets=[ast.Name(id="appended_value", ctx=ast.Store())], value=hits[0].value.args[0], lineno=hits[0].lineno), hits[0])
        if any(isinstance(x, ast.Attribute) and x.attr == out_append for st in stmts_in for x in ast.walk(st)):
            raise Untranslatable(node, f"self.{out_append} is used other than by the single append")
        if not isinstance(stmts_in[-1], ast.Return) or any(isinstance(x, ast.Return) for st in stmts_in[:-1] for x in ast.walk(st)):
            raise Untranslatable(node, "a single final return is expected")
        stmts_in[-1] = ast.copy_location(ast.Return(value=ast.Tuple(elts=[ast.Name(id="appended_value", ctx=ast.Load()), stmts_in[-1].value], ctx=ast.Load())), stmts_in[-1])
        for st in stmts_in:
            ast.fix_missing_locations(st)
    pool_locals = POOL_LOCALS.get(out_name, [])
    pool_names = []
    for text, binds in pool_locals:
        pinned = [st for st in stmts_in if ast.unparse(st) == text]
        if len(pinned) != 1:
            raise Untranslatable(node, "the statement unpacking a pool entry is no longer: " + text)
        stmts_in = [st for st in stmts_in if st is not pinned[0]]
        pool_names += [n_ for n_, _ in binds]
    if pool_locals:
        # the names selecting the pool entries are only used by the pinned statements
        sel_names = {x.id for text, _ in pool_locals for x in ast.walk(ast.parse(text)) if isinstance(x, ast.Name)} - set(pool_names) - {"self"}
        for x in ast.walk(ast.Module(body=stmts_in, type_ignores=[])):
            if isinstance(x, ast.Name) and x.id in sel_names:
                raise Untranslatable(x, f"'{x.id}' is used outside the pool look-ups")
            if isinstance(x, ast.Name) and x.id in pool_names and not isinstance(x.ctx, ast.Load) and \
                    not any(isinstance(t_, tuple) and n_ == x.id for _, b_ in pool_locals for n_, t_ in b_ if False):
                if any(n_ == x.id and isinstance(t_, tuple) for _, b_ in pool_locals for n_, t_ in b_):
                    raise Untranslatable(x, "a pool function is re-bound")
        kept = [k_ for k_ in kept if k_ not in sel_names]
    live_consts = dict(consts)
    for st in stmts_in:
        stored_now = set()
        # a specialised parameter that is re-bound: its loads are the constant only up to the statement that stores it, and in that
        # statement only inside an `if` test (if p is None: p = <default>)
        for c_ in live_consts:
            stores = [x for x in ast.walk(st) if isinstance(x, ast.Name) and x.id == c_ and not isinstance(x.ctx, ast.Load)]
            if stores:
                loads_ok = isinstance(st, ast.If) and all(isinstance(x.ctx, ast.Store) or x in list(ast.walk(st.test))
                                                          for x in ast.walk(st) if isinstance(x, ast.Name) and x.id == c_)
                if not loads_ok:
                    raise Untranslatable(st, f"the specialised parameter {c_} is read and re-bound in one statement")
        r = fold(Rw().visit(st))
        for c_ in stored_now:
            live_consts.pop(c_, None)
        for r1 in (r if isinstance(r, list) else [r]):
            if dict_param is not None:
                r1 = DictRw().visit(r1)
                leftover = [x for x in ast.walk(r1) if isinstance(x, ast.Attribute) and isinstance(x.value, ast.Name) and x.value.id == dict_param[0]
                            and x.attr in ("keys", "values", "items", "get", "pop", "update", "setdefault")]
                if leftover:
                    raise Untranslatable(r1, f"use of the dict '{dict_param[0]}' outside the modelled forms")
            body.append(r1)
    new_params = ([func_local[0].split(" = ")[0]] if func_local is not None else []) + pool_names + ["self" + f_ for f_ in used_fields] + kept
    fd = ast.FunctionDef(name=out_name, args=ast.arguments(posonlyargs=[], args=[ast.arg(arg=p) for p in new_params], kwonlyargs=[], kw_defaults=[], defaults=[]),
                         body=body, decorator_list=[], lineno=node.lineno, col_offset=0)
    ast.fix_missing_locations(fd)
    return fd, used_fields


CALL_POS = {"lehmer_mean": ("x", "power", "weight")}
# static helpers called through self: name -> (translated specialisation, number of positional arguments of that call shape)
STATIC_VIA_SELF = {"bit_to_int": ("bit_to_int_powers", 2), "gray_to_bit": ("gray_to_bit", 1)}


def indent(text):
    """re-indent the generated term by nesting depth of parentheses (readability only)"""
    out, depth = [], 0
    for line in text.split("\n"):
        stripped = line.strip()
        lead = depth
        if stripped.startswith(")"):
            lead = max(0, depth - 1)
        out.append("  " * min(lead + 1, 12) + stripped)
        depth += line.count("(") - line.count(")")
    return "\n".join(out)


def emit(out_file=OUT_FILE, src_root=None):
    tr = Translator(src_root or C.SRC)
    res = tr.run()
    L_ = ["(* GENERATED on every run by harness/translate_code.py from the function bodies under",
          "   src/thefittest/{utils,optimizers}; DO NOT EDIT.  The meaning of every combinator is in theories/Py.v. *)",
          "From TF Require Import Py.", "From Coq Require Import String.", "Open Scope Z_scope.", ""]
    ok, failed = [], []
    for name, text, err, rel, line in res:
        L_.append(f"(* {rel}:{line}  {name} *)")
        if text is None:
            L_.append(f"(* UNTRANSLATABLE {name}: {err.replace('*)', '* )')} *)")
            failed.append((name, err))
        else:
            head, _, body = text.partition(":=\n")
            L_.append(head + ":=\n" + indent(body))
            ok.append(name)
        L_.append("")
    L_.append("(* every function listed here was translated, hence (translate_code.py: stores are only accepted into arrays the")
    L_.append("   function allocated itself) contains no write into any of its parameters *)")
    L_.append("Definition no_param_writes : list string := [" + "; ".join(f'"{n}"%string' for n in ok) + "].")
    text = "\n".join(L_) + "\n"
    os.makedirs(os.path.dirname(out_file), exist_ok=True)
    old = open(out_file).read() if os.path.exists(out_file) else None
    if old != text:
        with open(out_file, "w") as fh:
            fh.write(text)
    return dict(translated=ok, failed=failed)


def ensure(names):
    """regenerate GenCode.v; fail closed when one of the functions the property's proofs are about could not be translated"""
    r = emit()
    bad = [(n, e) for n, e in r["failed"] if n in names]
    if bad:
        raise RuntimeError("function bodies outside the translated subset (the tie to the source is broken): "
                           + "; ".join(f"{n}: {e}" for n, e in bad))
    return r


C11_FUNCS = ["minmax_scale", "binary_search_interval", "check_for_value", "argsort_k", "find_pbest_id", "sattolo_shuffle",
             "random_weighted_sample", "random_sample", "flip_coin", "randint", "proportional_selection",
             "rank_selection", "tournament_selection"]
C06_FUNCS = C11_FUNCS + ["uniform_tournament_crossover", "empty_crossover", "binomialGA", "one_point_crossover", "two_point_crossover", "uniform_crossover",
                         "uniform_proportional_crossover", "uniform_rank_crossover", "flip_mutation"]
C07_FUNCS = C11_FUNCS + ["binomial", "best_1", "rand_1", "rand_to_best1", "current_to_best_1", "best_2", "rand_2",
                         "bounds_control", "bounds_control_mean", "uniform", "current_to_pbest_1_archive_p_min"]


if __name__ == "__main__":
    r = emit()
    print("translated:", len(r["translated"]))
    for n, e in r["failed"]:
        print("FAILED", n, ":", e)
