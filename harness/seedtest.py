"""Evaluate one seeded change:  seedtest.py <mutant_dir> <check ids...>
   1. scratch worktree of /repo HEAD: demo must pass (exit 0) without the patch and fail (exit 1) with it;
   2. the named checks are run against the patched scratch worktree (THEFITTEST_REPO) — same code path as
      applying the patch to /repo, without disturbing /repo;
   3. optionally (--tests) the repository's test suite is run with the patch.
   Prints a JSON summary."""
import json, os, subprocess, sys, tempfile, shutil, time

def sh(cmd, cwd=None, env=None, timeout=3600):
    p = subprocess.run(cmd, shell=True, cwd=cwd, env=env, capture_output=True, text=True, timeout=timeout)
    return p.returncode, (p.stdout + p.stderr)

def main():
    args = [a for a in sys.argv[1:] if not a.startswith("--")]
    run_tests = "--tests" in sys.argv
    mdir, checks = args[0], args[1:]
    name = os.path.basename(mdir.rstrip("/"))
    wt = f"/tmp/wt_eval_{name}"
    sh(f"git -C /repo worktree remove --force {wt}")
    rc, out = sh(f"git -C /repo worktree add -q --detach {wt} HEAD")
    assert rc == 0, out
    res = dict(mutant=name, checks={})
    env = dict(os.environ, PYTHONPATH=f"{wt}/src", PYTHONHASHSEED="0")
    try:
        demo = os.path.join(mdir, "demo.py")
        rc0, o0 = sh(f"/venv/bin/python {demo}", cwd=wt, env=env)
        rca, oa = sh(f"git -C {wt} apply {os.path.join(mdir, 'patch.diff')}")
        res["patch_applies"] = rca == 0
        if rca != 0:
            res["apply_error"] = oa[-500:]
            print(json.dumps(res, indent=1)); return
        rc1, o1 = sh(f"/venv/bin/python {demo}", cwd=wt, env=env)
        res.update(demo_without=rc0, demo_with=rc1, demo_tail=o1[-400:])
        for c in checks:
            t0 = time.time()
            rcc, oc = sh(f"./check {c} --tier quick", cwd=os.environ.get("VERIF_EVAL_DIR", "/verif"), env=dict(os.environ, THEFITTEST_REPO=wt))
            lines = [l for l in oc.splitlines() if l.startswith(("VIOLATION", "KNOWN-FINDING")) or "problem:" in l]
            res["checks"][c] = dict(exit=rcc, wall=round(time.time() - t0), lines=lines[:6])
        if run_tests:
            rct, ot = sh("/venv/bin/python -m pytest -q -p no:cacheprovider --timeout=900 --continue-on-collection-errors -x "
                         "--deselect src/thefittest/tests/test_classifiers.py --deselect src/thefittest/tests/test_regressors.py", cwd=wt, env=env)
            res["tests"] = ot.strip().splitlines()[-1] if ot.strip() else ""
    finally:
        sh(f"git -C /repo worktree remove --force {wt}")
    print(json.dumps(res, indent=1))

main()
