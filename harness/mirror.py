"""Mirror mode (DESIGN §3.2): run the library's @njit functions as plain Python from their own
py_func code objects, with the primitive RNG calls intercepted.

  script mode: the shims return harness-chosen values  -> every outcome of the random choices
               can be enumerated, measure-zero corners reached.
  log mode   : the shims forward to tiny *compiled* servers that read the same two numba generator
               states as the compiled library, and record (kind, args, result); a mirror run and a
               compiled run after the same numba_seed(s) consume identical streams.

Nothing in /repo is edited; mirrors are rebuilt from the working tree on every run."""
from __future__ import annotations

import contextlib
import importlib
import random as _pyrandom
import sys
import types

import numpy as np
from numba import njit
from numba.core.registry import CPUDispatcher

MODULES = [
    "thefittest.utils",
    "thefittest.utils.random",
    "thefittest.utils.selections",
    "thefittest.utils.crossovers",
    "thefittest.utils.mutations",
    "thefittest.utils._metrics",
    "thefittest.optimizers._differentialevolution",
    "thefittest.optimizers._shade",
    "thefittest.optimizers._shaga",
    "thefittest.optimizers._jde",
]


SKIP = {"numba_seed"}   # seeding stays compiled: it must reach the real generator states


class DrawError(Exception):
    """the code asked for a primitive the script does not provide next (kind/range mismatch or
    exhausted) — model and code disagree on *how randomness is used*"""


class NeedDraw(DrawError):
    """script exhausted: the code asks for one more primitive of this kind (used by enumerate_outcomes)"""

    def __init__(self, kind, param=None):
        super().__init__(f"script exhausted, code asked for {kind} {param}")
        self.kind, self.param = kind, param


# compiled primitive servers (log mode)
@njit
def _srv_random():
    return _pyrandom.random()


@njit
def _srv_randint(a, b):
    return np.random.randint(a, b)


@njit
def _srv_uniform(low, high, size):
    return np.random.uniform(low, high, size)


@njit
def _srv_cauchy(size):
    return np.random.standard_cauchy(size)


@njit
def _srv_normal(loc, scale):
    return np.random.normal(loc, scale, 1)


class Tape:
    """the draw source shared by all shims"""

    def __init__(self):
        self.mode = "log"
        self.script = []
        self.pos = 0
        self.log = []

    def start_script(self, script):
        self.mode, self.script, self.pos, self.log = "script", list(script), 0, []

    def start_log(self):
        self.mode, self.script, self.pos, self.log = "log", [], 0, []

    def _next(self, kind, param=None):
        if self.pos >= len(self.script):
            raise NeedDraw(kind, param)
        d = self.script[self.pos]
        self.pos += 1
        if d[0] != kind:
            raise DrawError(f"code asked for {kind}, script has {d}")
        return d

    def leftover(self):
        return len(self.script) - self.pos if self.mode == "script" else 0

    # primitives
    def random(self):
        if self.mode == "log":
            v = float(_srv_random())
            self.log.append(("U", v))
            return v
        d = self._next("U")
        self.log.append(d)
        return float(d[1])

    def randint(self, a, b):
        a, b = int(a), int(b)
        if self.mode == "log":
            v = int(_srv_randint(a, b))
            self.log.append(("I", b - a, v - a) if a == 0 else ("I2", a, b, v))
            return v
        d = self._next("I", b - a)
        if int(d[1]) != b - a or not (0 <= int(d[2]) < b - a):
            raise DrawError(f"randint({a},{b}) but script has {d}")
        self.log.append(d)
        return np.int64(a + int(d[2]))

    def uniform(self, low=0.0, high=1.0, size=None):
        n = 1 if size is None else int(size)
        if self.mode == "log":
            v = np.asarray(_srv_uniform(float(low), float(high), n), dtype=np.float64)
        else:
            v = np.array([float(self._next("X")[1]) for _ in range(n)], dtype=np.float64)
        self.log.append(("XU", float(low), float(high), [float(x) for x in v]))
        return v if size is not None else float(v[0])

    def standard_cauchy(self, size=None):
        n = 1 if size is None else int(size)
        if self.mode == "log":
            v = np.asarray(_srv_cauchy(n), dtype=np.float64)
        else:
            v = np.array([float(self._next("X")[1]) for _ in range(n)], dtype=np.float64)
        self.log.append(("XC", [float(x) for x in v]))
        return v if size is not None else float(v[0])

    def normal(self, loc=0.0, scale=1.0, size=None):
        n = 1 if size is None else int(size)
        if self.mode == "log":
            v = np.concatenate([np.asarray(_srv_normal(float(loc), float(scale))) for _ in range(n)])
        else:
            v = np.array([float(self._next("X")[1]) for _ in range(n)], dtype=np.float64)
        self.log.append(("XN", float(loc), float(scale), [float(x) for x in v]))
        return v if size is not None else float(v[0])


TAPE = Tape()


class _RandomShim:
    @staticmethod
    def random():
        return TAPE.random()

    @staticmethod
    def seed(s):
        raise DrawError("mirror code must not reseed")


class _NpRandomShim:
    randint = staticmethod(lambda a, b=None, size=None: TAPE.randint(a, b))
    uniform = staticmethod(lambda low=0.0, high=1.0, size=None: TAPE.uniform(low, high, size))
    standard_cauchy = staticmethod(lambda size=None: TAPE.standard_cauchy(size))
    normal = staticmethod(lambda loc=0.0, scale=1.0, size=None: TAPE.normal(loc, scale, size))

    @staticmethod
    def seed(s):
        raise DrawError("mirror code must not reseed")


class _NpProxy:
    random = _NpRandomShim()

    def __getattr__(self, name):
        return getattr(np, name)


_NP = _NpProxy()
_RND = _RandomShim()

MIRROR = {}      # id(dispatcher) -> mirror function
BY_NAME = {}     # "module.func" -> mirror function
DISPATCHERS = {}  # "module.func" -> dispatcher


def build():
    """(re)build mirrors of every njit function defined in MODULES"""
    MIRROR.clear(), BY_NAME.clear(), DISPATCHERS.clear()
    globs = {}
    for mn in MODULES:
        m = importlib.import_module(mn)
        globs[mn] = dict(vars(m))
    for mn in MODULES:
        m = sys.modules[mn]
        for name, obj in list(vars(m).items()):
            if isinstance(obj, CPUDispatcher) and obj.py_func.__module__ == mn and name not in SKIP:
                pf = obj.py_func
                f = types.FunctionType(pf.__code__, globs[mn], pf.__name__, pf.__defaults__, pf.__closure__)
                f.__kwdefaults__ = pf.__kwdefaults__
                MIRROR[id(obj)] = f
                BY_NAME[f"{mn}.{name}"] = f
                DISPATCHERS[f"{mn}.{name}"] = obj
    for mn, g in globs.items():
        for k, v in list(g.items()):
            if isinstance(v, CPUDispatcher) and id(v) in MIRROR:
                g[k] = MIRROR[id(v)]
        if "random" in g and g["random"] is _pyrandom:
            g["random"] = _RND
        if "np" in g:
            g["np"] = _NP
    return BY_NAME


def get(qualname: str):
    if not BY_NAME:
        build()
    return BY_NAME[qualname]


def compiled(qualname: str):
    if not BY_NAME:
        build()
    return DISPATCHERS[qualname]


def run_script(qualname: str, script, *args, **kw):
    """run a mirror under scripted draws; returns (result, consumed_log, leftover)"""
    f = get(qualname)
    TAPE.start_script(script)
    r = f(*args, **kw)
    return r, list(TAPE.log), TAPE.leftover()


def run_log(qualname: str, *args, **kw):
    f = get(qualname)
    TAPE.start_log()
    r = f(*args, **kw)
    return r, list(TAPE.log)


def _rebound(obj, saved, depth=0):
    """obj with every mirrored dispatcher inside it replaced by its mirror: dicts / lists are changed in place
    (and recorded in `saved` for restoration), tuples are rebuilt"""
    if isinstance(obj, CPUDispatcher):
        return MIRROR.get(id(obj), obj)
    if depth > 3:
        return obj
    if isinstance(obj, dict) and len(obj) <= 2000:
        for k, v in list(obj.items()):
            nv = _rebound(v, saved, depth + 1)
            if nv is not v:
                saved.append(("item", obj, k, v))
                obj[k] = nv
        return obj
    if isinstance(obj, list) and len(obj) <= 2000:
        for k, v in enumerate(obj):
            nv = _rebound(v, saved, depth + 1)
            if nv is not v:
                saved.append(("item", obj, k, v))
                obj[k] = nv
        return obj
    if isinstance(obj, tuple) and len(obj) <= 2000:
        new = tuple(_rebound(v, saved, depth + 1) for v in obj)
        return new if any(a is not b for a, b in zip(new, obj)) else obj
    return obj


@contextlib.contextmanager
def patched_library():
    """rebind, in every loaded thefittest.* module, names bound to mirrored dispatchers to their mirrors (whole-run log
    mode) - module globals, module-level containers (pools kept as constants) and class attributes; restored on exit"""
    if not BY_NAME:
        build()
    saved = []
    for mn, m in list(sys.modules.items()):
        if m is None or not mn.startswith("thefittest"):
            continue
        for k, v in list(vars(m).items()):
            if isinstance(v, CPUDispatcher):
                if id(v) in MIRROR:
                    saved.append(("attr", m, k, v))
                    setattr(m, k, MIRROR[id(v)])
            elif isinstance(v, (dict, list, tuple)) and not k.startswith("__"):
                nv = _rebound(v, saved)
                if nv is not v:
                    saved.append(("attr", m, k, v))
                    setattr(m, k, nv)
            elif isinstance(v, type) and getattr(v, "__module__", None) == mn:
                for ck, cv in list(vars(v).items()):
                    if ck.startswith("__") or not isinstance(cv, (dict, list, tuple)):
                        continue
                    ncv = _rebound(cv, saved)
                    if ncv is not cv:
                        try:
                            setattr(v, ck, ncv)
                            saved.append(("attr", v, ck, cv))
                        except (AttributeError, TypeError):
                            pass
    try:
        yield
    finally:
        for kind, holder, k, v in reversed(saved):
            if kind == "attr":
                setattr(holder, k, v)
            else:
                holder[k] = v


def seed(s: int):
    from thefittest.utils.random import numba_seed
    numba_seed(int(s))


def enumerate_outcomes(qualname, args_fn, u_values, max_depth=12, limit=200000):
    """exhaustively enumerate the outcomes of the random choices of a mirror function:
    depth-first over scripts; whenever the code asks for a draw beyond the script, branch over
    every value of that primitive (all v < n for randint, every u in u_values for random()).
    args_fn() must return fresh arguments.  Yields (script, result)."""
    f = get(qualname)
    stack = [[]]
    n = 0
    while stack:
        script = stack.pop()
        TAPE.start_script(script)
        try:
            r = f(*args_fn())
        except NeedDraw as e:
            if len(script) >= max_depth:
                continue
            if e.kind == "U":
                ext = [("U", u) for u in u_values]
            elif e.kind == "I":
                ext = [("I", e.param, v) for v in range(e.param)]
            else:
                raise
            for d in reversed(ext):
                stack.append(script + [d])
            continue
        n += 1
        yield script, r
        if n >= limit:
            return
