"""Regenerate every table under coq/gen from /repo's working tree (called by build.sh and by checks)."""
import importlib
import os
import sys
import traceback

sys.path.insert(0, os.path.dirname(os.path.abspath(__file__)))
rc = 0
for mod in ("translate_code", "translate_loop", "translate_pools", "translate_symtable", "translate_bench", "translate_rng", "translate_misc"):
    if not os.path.exists(os.path.join(os.path.dirname(os.path.abspath(__file__)), mod + ".py")):
        continue
    try:
        m = importlib.import_module(mod)
        if mod == "translate_symtable":
            m.gen()
        elif mod == "translate_bench":
            import common as C
            m.emit_coq(m.translate(os.path.join(C.SRC, "thefittest/benchmarks/_optproblems.py"),
                                   os.path.join(C.SRC, "thefittest/benchmarks/CEC2005.py")),
                       os.path.join(C.COQ, "gen", "GenBenchFootprint.v"))
        else:
            m.emit()
    except Exception:
        traceback.print_exc()
        print(f"genall: translator {mod} failed (fail-closed); the tables it owns are left as they were", file=sys.stderr)
        rc = 1
sys.exit(rc)
