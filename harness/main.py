"""Entry point behind /verif/check:   check <ID> [--tier quick|thorough] [--replay file]

One run = regenerate tables from /repo -> build Coq development -> re-check the property's
obligations (props/<ID>.v, with Print Assumptions) -> correspondence model/implementation ->
verdict, evidence, exit code.  See DESIGN.md §2 and §5."""
from __future__ import annotations

import argparse
import fcntl
import importlib
import json
import os
import random
import re
import subprocess
import sys
import traceback

sys.path.insert(0, os.path.dirname(os.path.abspath(__file__)))
import common as C  # noqa: E402

ALLOWED_AXIOMS = {
    # standard-library axioms that may appear (named in DESIGN §8 / evidence when they do)
    "ClassicalDedekindReals.sig_forall_dec", "ClassicalDedekindReals.sig_not_dec",
    "FunctionalExtensionality.functional_extensionality_dep", "Classical_Prop.classic",
}
FORBIDDEN = re.compile(r"\b(Admitted|admit|Axiom|Parameter|Conjecture|Admit Obligations)\b|Unset Guard|bypass_check|type-in-type|impredicative-set|Unset Universe Checking|Unset Positivity")


class Report:
    def __init__(self, pid: str, tier: str, seed: int):
        self.pid, self.tier, self.seed = pid, tier, seed
        self.evaluations = 0
        self.nontrivial = set()
        self.samples = []
        self.rule = ""
        self.families = {}       # family -> count
        self.histo = {}          # free-form histograms
        self.problems = []       # see problem()
        self.traces = 0
        self.exhaustive = False
        self.exhaustive_note = ""
        self.assumptions = []
        self.extra = {}

    def count(self, family: str, key=None, nontrivial: bool = True, n: int = 1):
        self.evaluations += n
        self.families[family] = self.families.get(family, 0) + n
        if nontrivial and key is not None:
            self.nontrivial.add((family, key))

    def sample(self, s, limit: int = 12):
        if len(self.samples) < limit:
            self.samples.append(C.jsonable(s))

    def hist(self, name: str, key):
        h = self.histo.setdefault(name, {})
        h[str(key)] = h.get(str(key), 0) + 1

    def problem(self, family: str, what: str, case, signature: str = "", prop_violated: bool = False,
                impl=None, model=None, clause: str = ""):
        """family: which correspondence/obligation; prop_violated: the property predicate itself
        fails on the implementation's output for this concrete case (=> a failing input was found)."""
        self.problems.append(dict(family=family, what=what, case=C.jsonable(case), signature=signature,
                                  prop_violated=bool(prop_violated), impl=C.jsonable(impl),
                                  model=C.jsonable(model), clause=clause))


class Ctx:
    def __init__(self, pid, tier, seed):
        self.pid, self.tier, self.seed = pid, tier, seed
        self.rng = random.Random(seed * 1000003 + int(pid[1:]))
        self.scratch = C.Scratch(pid)
        self.quick = tier == "quick"

    def pick(self, q, t):
        return q if self.quick else t


def load_known():
    p = os.path.join(C.VERIF, "known_findings.json")
    if not os.path.exists(p):
        return []
    return json.load(open(p))["findings"]


def build_theories(timer) -> tuple[bool, str]:
    os.makedirs(os.path.join(C.COQ, "gen"), exist_ok=True)
    lock = open(os.path.join(C.VERIF, ".build.lock"), "w")
    fcntl.flock(lock, fcntl.LOCK_EX)
    try:
        p = subprocess.run(["bash", os.path.join(C.VERIF, "build.sh")], capture_output=True, text=True,
                           timeout=3000)
        return p.returncode == 0, (p.stdout + p.stderr)[-6000:]
    finally:
        fcntl.flock(lock, fcntl.LOCK_UN)
        lock.close()


def check_obligations(ctx: Ctx, pid: str):
    """compile props/<pid>.v into scratch; returns dict(obligations, discharged, theorems, axioms, ok, log)"""
    src = os.path.join(C.COQ, "props", pid + ".v")
    text = open(src).read()
    names = re.findall(r"^\s*(?:Theorem|Lemma|Example|Corollary)\s+([A-Za-z0-9_']+)", text, re.M)
    printed = re.findall(r"^\s*Print Assumptions\s+([A-Za-z0-9_']+)\s*\.", text, re.M)
    res = dict(theorems=names, obligations=len(names), discharged=0, axioms={}, ok=False, log="")
    missing = [n for n in names if n not in printed]
    out_vo = ctx.scratch.path(pid + ".vo")
    try:
        p = subprocess.run(["coqc"] + C.COQ_ARGS + ["-o", out_vo, src], capture_output=True, text=True,
                           timeout=1800)
        rc, out = p.returncode, p.stdout + p.stderr
    except subprocess.TimeoutExpired:
        rc, out = 124, "coqc timeout"
    res["log"] = out[-6000:]
    if rc != 0:
        # count theorems accepted before the failure: each accepted theorem with Print Assumptions printed a block
        res["discharged"] = len(re.findall(r"Closed under the global context|^Axioms:", out, re.M))
        return res
    blocks = re.split(r"(?=Closed under the global context|^Axioms:)", out, flags=re.M)
    blocks = [b for b in blocks if b.startswith("Closed under") or b.startswith("Axioms:")]
    bad_axioms = []
    for name, b in zip(printed, blocks):
        if b.startswith("Closed under"):
            res["axioms"][name] = "Closed under the global context"
        else:
            ax = re.findall(r"^([A-Za-z0-9_.']+)\s*:", b, re.M)
            ax = [a for a in ax if a != "Axioms"]
            res["axioms"][name] = "Axioms: " + ", ".join(ax)
            for a in ax:
                if a not in ALLOWED_AXIOMS and not a.startswith(("PrimFloat.", "Uint63.", "PrimInt63.", "FloatOps.", "Sint63.")):
                    bad_axioms.append((name, a))
    res["discharged"] = len(blocks) if not missing else len(blocks)
    res["ok"] = (not missing) and len(blocks) == len(printed) == len(names) and not bad_axioms
    if missing:
        res["log"] += f"\ntheorems without Print Assumptions: {missing}"
    if bad_axioms:
        res["log"] += f"\nnon-allow-listed axioms: {bad_axioms}"
    return res


def forbidden_scan():
    hits = []
    for sub in ("theories", "props", "gen"):
        d = os.path.join(C.COQ, sub)
        if not os.path.isdir(d):
            continue
        for fn in sorted(os.listdir(d)):
            if fn.endswith(".v"):
                txt = open(os.path.join(d, fn)).read()
                txt = re.sub(r"\(\*.*?\*\)", "", txt, flags=re.S)
                for m in FORBIDDEN.finditer(txt):
                    hits.append(f"{sub}/{fn}: {m.group(0)}")
    return hits


def main():
    ap = argparse.ArgumentParser()
    ap.add_argument("pid")
    ap.add_argument("--tier", default=os.environ.get("VERIF_TIER", "quick"), choices=["quick", "thorough"])
    ap.add_argument("--replay", default=None)
    ap.add_argument("--no-build", action="store_true")
    a = ap.parse_args()
    pid = a.pid
    seed = int(os.environ.get("VERIF_SEED", "0") or 0)
    timer = C.Timer()
    ctx = Ctx(pid, a.tier, seed)
    rep = Report(pid, a.tier, seed)
    mod = importlib.import_module("props." + pid.lower())
    exit_code = 0
    try:
        if a.replay:
            rp = json.load(open(a.replay))
            ok = mod.replay(ctx, rp)
            print("REPLAY", "property holds on this input" if ok else "property FAILS on this input")
            sys.exit(0 if ok else 1)

        # 1. regenerate tables from the working tree
        gen_err = None
        if hasattr(mod, "gen"):
            try:
                mod.gen(ctx)
            except Exception as e:  # fail-closed translator => tie broken
                gen_err = f"{type(e).__name__}: {e}"
                C.log("translator failed:", gen_err)
        # 2. build
        if not a.no_build:
            ok, blog = build_theories(timer)
            if not ok:
                failed = re.findall(r"\*\*\* \[[^\]]*?:\s*(\S+)\.vo\] Error", blog)
                failed = [os.path.basename(f) for f in failed]
                needed = getattr(mod, "THEORIES", None)
                if needed is None or not failed or any(f in needed for f in failed):
                    rep.problem("build", "Coq development (theories/gen) does not build: " + blog[-1500:], {}, "build")
                else:
                    C.log(f"[{pid}] note: unrelated theories fail to build: {failed}")
        C.log(f"[{pid}] build done {timer.s()}s")
        # 3. obligations
        ob = check_obligations(ctx, pid)
        C.log(f"[{pid}] obligations {ob['discharged']}/{ob['obligations']} ok={ob['ok']} {timer.s()}s")
        if gen_err:
            rep.problem("translator", "table translator failed closed: " + gen_err, {}, "translator")
        if not ob["ok"]:
            rep.problem("obligation", "proof obligation in props/%s.v no longer checks: %s" % (pid, ob["log"][-1500:]),
                        {"theorems": ob["theorems"]}, "obligation")
        hits = forbidden_scan()
        if hits:
            rep.problem("forbidden", "forbidden constructs in the development: " + "; ".join(hits[:10]), {}, "forbidden")
        # 4. correspondence (also the search for a failing input when 3 broke)
        try:
            mod.run(ctx, rep)
        except Exception:
            tb = traceback.format_exc()
            C.log(tb)
            rep.problem("harness", "correspondence harness crashed: " + tb[-2500:], {}, "harness-crash")
        C.log(f"[{pid}] correspondence done {timer.s()}s evaluations={rep.evaluations}")

        # 5. verdict
        known = [k for k in load_known() if k["property"] == pid]
        known_sigs = {k["signature"]: k for k in known if k["status"] == "known"}
        printed_known = set()
        violations = []
        for pr in rep.problems:
            k = known_sigs.get(pr["signature"])
            if k is not None and pr["prop_violated"]:
                if k["signature"] not in printed_known:
                    print(f"KNOWN-FINDING: property={pid} {k['what']}")
                    printed_known.add(k["signature"])
                continue
            violations.append(pr)
        os.makedirs(os.path.join(C.VERIF, "replays"), exist_ok=True)
        if violations:
            exit_code = 1
            # failing inputs first
            violations.sort(key=lambda p: (not p["prop_violated"],))
            found = any(p["prop_violated"] for p in violations)
            first = violations[0]
            sigs = {}
            for p in violations:
                k = f"{p['family']}|{p['signature']}|prop_violated={p['prop_violated']}"
                sigs[k] = sigs.get(k, 0) + 1
            rp = dict(property=pid, tier=a.tier, seed=seed, found_failing_input=found, first=first, by_signature=sigs,
                      all=violations[:25], n_problems=len(violations),
                      broken=[p["family"] + ": " + p["what"][:300] for p in violations if not p["prop_violated"]][:10])
            path = os.path.join("replays", f"{pid}-{C.sha(first)}.json")
            json.dump(rp, open(os.path.join(C.VERIF, path), "w"), indent=1)
            tail = "" if found else " no-failing-input-found"
            print(f"VIOLATION property={pid} replay={path}{tail}")
            for p in violations[:5]:
                C.log("  problem:", p["family"], "|", p["what"][:400])
        # 6. evidence
        tb = ["Coq 8.16.1 kernel + vm_compute (no native_compute)",
              "harness: mirror loader / generators / float->Q conversion / coqc case runner (harness/*.py)"]
        tb += [f"{n}: {ax}" for n, ax in ob["axioms"].items()]
        tb += getattr(mod, "TRUSTED", [])
        ev = dict(
            property_id=pid, tier=a.tier, seed=seed, level="proof",
            coverage=dict(
                obligations=ob["obligations"], discharged=ob["discharged"],
                checker_cmd=f"coqc -Q coq/theories TF -Q coq/gen TFG coq/props/{pid}.v  (after make in coq/; Print Assumptions under every theorem)",
                trusted_base=tb,
                theorems=ob["theorems"],
                evaluations=rep.evaluations, distinct_nontrivial=len(rep.nontrivial),
                rule=rep.rule or getattr(mod, "RULE", ""),
                samples=rep.samples or [{"note": "no sample recorded"}],
                traces_validated_against_impl=rep.traces,
                exhaustive=bool(rep.exhaustive), exhaustive_note=rep.exhaustive_note,
                families=rep.families, histograms=rep.histo,
                known_findings_hit=sorted(printed_known), **rep.extra),
            assumptions=getattr(mod, "ASSUMPTIONS", []) + rep.assumptions,
            wall_s=timer.s(), violations=len(violations))
        os.makedirs(os.path.join(C.VERIF, "evidence"), exist_ok=True)
        json.dump(ev, open(os.path.join(C.VERIF, "evidence", pid + ".json"), "w"), indent=1)
        C.log(f"[{pid}] done in {timer.s()}s exit={exit_code}")
    finally:
        ctx.scratch.cleanup()
    sys.exit(exit_code)


if __name__ == "__main__":
    main()
