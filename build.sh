#!/bin/bash
# Full .vo build of the hand-written theories and the regenerated tables (never -vos).
set -e
cd "$(dirname "$0")/coq"
mkdir -p gen
if [ -z "$VERIF_NO_GEN" ]; then /venv/bin/python ../harness/genall.py || true; fi
{
  echo "-Q theories TF"; echo "-Q gen TFG"; echo "-Q props TFP"
  ls theories/*.v; ls gen/*.v 2>/dev/null || true
} > _CoqProject
coq_makefile -f _CoqProject -o Makefile.coq >/dev/null 2>&1
# optional arguments: the .vo targets to build (a check builds only what its property needs);
# without arguments everything is built (setup)
timeout 2700 make -k -f Makefile.coq -j16 "$@" 2>&1 | grep -v '^COQDEP\|^COQC\|^CoqMakefile' || true
# make's status (pipefail not set on purpose above): re-run quickly for the status
if ! timeout 2700 make -k -f Makefile.coq -j16 "$@" >/dev/null 2>&1; then
  if [ $# -eq 0 ]; then
    # setup: build everything that builds; every check rebuilds and validates the files its own property needs
    # (harness/main.py reports a failing dependency as a broken obligation), so a file that does not compile
    # must not take the other properties' checks down with it
    echo "build.sh: some targets did not build (see above); checks fail closed on their own dependencies" >&2
    exit 0
  fi
  exit 2
fi
